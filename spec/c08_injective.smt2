; C08 — is the cache identity (key, concatenation of every other argument) injective on argument vectors?
; Two commands of the same shape  NAME key x y  (e.g. GETRANGE key start end): equal identities must imply equal arguments.
; unsat = injective.  (Theory of strings; stated over the spec function catskip that CacheKey is proved to compute.)
(set-option :produce-models true)
(set-logic QF_SLIA)
(declare-const name String) (declare-const key String)
(declare-const x1 String) (declare-const y1 String)
(declare-const x2 String) (declare-const y2 String)
(assert (= (str.++ name x1 y1) (str.++ name x2 y2)))   ; same derived command string, same key
(assert (not (and (= x1 x2) (= y1 y2))))                ; but different arguments
(check-sat)
(get-value (x1 y1 x2 y2))
