package main

// Functions whose contract says `pure`: deterministic functions of their (value) arguments. Every application —
// in code and in specifications — is the same uninterpreted function pf_<name>(args), so two calls with equal
// arguments are known to agree, and specifications can mention the function itself (`slot(key)`).
// Soundness rests on the function (a) writing nothing but memory it created (frame inference, infer.go) and
// (b) reading nothing but its arguments and read-only tables; (b) is checked by requiring that every global it
// (transitively) loads from is declared `uses-global` (read-only check in globals.go) in some contract.

import (
	"fmt"
	"go/types"
	"strings"

	"golang.org/x/tools/go/ssa"
)

func (c *FuncCtx) pureApp(fn *ssa.Function, args []Val, rt types.Type, st *State) Val {
	name := "pf_" + quoteSymInner(fnDisplayName(fn))
	var sorts, terms []string
	for _, a := range args {
		if isByteSlice(a.T) && st != nil {
			// a byte slice argument stands for its contents
			sorts = append(sorts, "Str")
			terms = append(terms, c.bytesToStr(st.get(c.so.heapArr(types.Typ[types.Byte])), a.S))
			continue
		}
		sorts = append(sorts, c.so.sortOf(a.T))
		terms = append(terms, c.termOf(a))
	}
	if _, isTup := rt.(*types.Tuple); isTup {
		panic(unsupportedErr{"pure function with several results: " + fn.Name()})
	}
	first := !c.needed[name]
	c.needDecl(name, fmt.Sprintf("(declare-fun %s (%s) %s)", name, strings.Join(sorts, " "), c.so.sortOf(rt)))
	if first {
		// postconditions labelled `...-axiom` that mention only parameters and the result hold for every
		// application (they are proved in the function's own verification for all inputs)
		if con := c.eng.contractFor(fn); con != nil {
			for _, cl := range con.Ensures {
				if !strings.HasSuffix(cl.Label, "axiom") {
					continue
				}
				env := &SpecEnv{c: c, names: map[string]Val{}}
				if fn.Pkg != nil {
					env.pkg = fn.Pkg.Pkg
				}
				var binders, qargs []string
				for i, p := range fn.Params {
					qn := fmt.Sprintf("%s!pa%d", p.Name(), i)
					binders = append(binders, fmt.Sprintf("(%s %s)", qn, c.so.sortOf(p.Type())))
					qargs = append(qargs, qn)
					env.names[p.Name()] = Val{T: p.Type(), S: qn}
				}
				app := fmt.Sprintf("(%s %s)", name, strings.Join(qargs, " "))
				env.results = []Val{{T: rt, S: app}}
				rs := fn.Signature.Results()
				for i := 0; i < rs.Len(); i++ {
					env.resNames = append(env.resNames, rs.At(i).Name())
				}
				t, err := env.evalBool(cl.Expr)
				if err != nil {
					panic(unsupportedErr{fmt.Sprintf("pure axiom %s of %s: %v", cl.Label, fn.Name(), err)})
				}
				c.axiom(fmt.Sprintf("(forall (%s) (! %s :pattern (%s)))", strings.Join(binders, " "), t, app), name)
			}
		}
	}
	c.assume("pure function " + fnDisplayName(fn) + ": all applications denote one mathematical function of the arguments")
	if len(terms) == 0 {
		return Val{T: rt, S: name}
	}
	return Val{T: rt, S: fmt.Sprintf("(%s %s)", name, strings.Join(terms, " "))}
}
