package main

import "go/types"

// typesPkg: the type-checked package with the given import path (nil if it is not loaded).
func (e *Engine) typesPkg(path string) *types.Package {
	if e == nil || path == "" {
		return nil
	}
	for _, p := range e.all {
		if p.PkgPath == path && p.Types != nil {
			return p.Types
		}
	}
	return nil
}

// specFnType resolves a type name used in the signature of a spec function: in the package whose contract file
// defines the function first (so `RedisResult` in a specfn of package rueidis means rueidis.RedisResult wherever
// the function is used), then in the package of the clause that uses it.
func (e *SpecEnv) specFnType(sf *SpecFn, name string) types.Type {
	if p := e.c.eng.typesPkg(sf.Pkg); p != nil && p != e.pkg {
		ne := *e
		ne.pkg = p
		var t types.Type
		func() {
			defer func() { _ = recover() }()
			t = ne.lookupType(name)
		}()
		if t != nil {
			return t
		}
	}
	return e.lookupType(name)
}
