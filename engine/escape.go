package main

import (
	"strings"

	"golang.org/x/tools/go/ssa"
)

var leakMemo = map[*ssa.Function]map[int]bool{}

// paramLeaks reports whether a pointer passed as the i-th parameter of fn may be retained or handed on by fn
// (stored, returned, captured, converted to an interface, passed to code we cannot see). Only repository code is
// examined; anything else is assumed to leak, except a short list of standard-library receivers known not to.
func paramLeaks(fn *ssa.Function, i int, depth int) bool {
	if fn == nil || len(fn.Blocks) == 0 || depth > 3 {
		name := ""
		if fn != nil {
			name = fn.String()
		}
		switch {
		case strings.HasPrefix(name, "(*sync.Mutex)."), strings.HasPrefix(name, "(*sync.RWMutex)."), strings.HasPrefix(name, "(*sync/atomic."):
			return false
		}
		return true
	}
	if m, ok := leakMemo[fn]; ok {
		if v, ok := m[i]; ok {
			return v
		}
	} else {
		leakMemo[fn] = map[int]bool{}
	}
	leakMemo[fn][i] = true // pessimistic for recursion
	if i >= len(fn.Params) {
		return true
	}
	res := valueLeaks(fn.Params[i], depth)
	leakMemo[fn][i] = res
	return res
}

func valueLeaks(v ssa.Value, depth int) bool {
	seen := map[ssa.Value]bool{}
	var walk func(v ssa.Value) bool
	walk = func(v ssa.Value) bool {
		if seen[v] {
			return false
		}
		seen[v] = true
		refs := v.Referrers()
		if refs == nil {
			return true
		}
		for _, r := range *refs {
			switch x := r.(type) {
			case *ssa.DebugRef:
			case *ssa.FieldAddr:
				if walk(x) {
					return true
				}
			case *ssa.IndexAddr:
				if walk(x) {
					return true
				}
			case *ssa.UnOp:
			case *ssa.BinOp: // comparison with nil
			case *ssa.Store:
				if x.Val == v {
					return true
				}
			case *ssa.Call:
				if b, ok := x.Call.Value.(*ssa.Builtin); ok {
					switch b.Name() {
					case "len", "cap", "copy":
						continue
					}
					return true
				}
				callee := x.Call.StaticCallee()
				if callee == nil || x.Call.IsInvoke() {
					return true
				}
				for i, a := range x.Call.Args {
					if a == v && paramLeaks(callee, i, depth+1) {
						return true
					}
				}
			default:
				return true
			}
		}
		return false
	}
	return walk(v)
}
