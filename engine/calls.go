package main

import (
	"go/token"
	"fmt"
	"go/types"
	"strings"

	"golang.org/x/tools/go/ssa"
)

func fullName(fn *ssa.Function) string {
	if fn == nil {
		return ""
	}
	return fn.String() // e.g. "strings.HasPrefix", "(*sync.Mutex).Lock", "github.com/redis/rueidis.pickAZ"
}

// callMods: heap keys a call may modify (names) and whether it may modify everything.
func (f *Frame) callMods(in ssa.CallInstruction) ([]string, bool) {
	cc := in.Common()
	if _, ok := in.(*ssa.Go); ok {
		return nil, false
	}
	if b, ok := cc.Value.(*ssa.Builtin); ok {
		switch b.Name() {
		case "append", "copy":
			if len(cc.Args) > 0 {
				if st, ok := cc.Args[0].Type().Underlying().(*types.Slice); ok {
					return []string{f.c.so.heapArr(st.Elem()).Name}, false
				}
			}
			return nil, false
		case "delete", "clear":
			if mt, ok := cc.Args[0].Type().Underlying().(*types.Map); ok {
				return []string{f.c.so.heapMapDom(mt.Key(), mt.Elem()).Name, f.c.so.heapMapLen(mt.Key(), mt.Elem()).Name}, false
			}
			return nil, true
		}
		return nil, false
	}
	callee := cc.StaticCallee()
	if callee == nil {
		if cc.IsInvoke() {
			if con := f.c.eng.ifaceContract(cc); con != nil {
				return f.contractModKeys(con, nil)
			}
		}
		return nil, true
	}
	name := fullName(callee)
	if h, ok := builtinModels[name]; ok {
		if h.mods == nil {
			return nil, false
		}
		return h.mods(f, cc), false
	}
	if con := f.c.eng.contractFor(callee); con != nil && !(con.Inline && f.c.eng.canInlineForce(callee)) {
		ks, all := f.contractModKeys(con, callee)
		// `modifies *p` where the argument passed for p is an interior address (slice element, field): the memory
		// written lives in the heap of the enclosing object
		for _, item := range con.Modifies {
			if !strings.HasPrefix(item, "*") || strings.Contains(item, ".") {
				continue
			}
			for i, p := range callee.Params {
				if p.Name() == item[1:] && i < len(cc.Args) {
					ks = append(ks, f.staticHeapKeys(cc.Args[i])...)
				}
			}
		}
		return ks, all
	}
	if pureExternal(name) {
		return nil, false
	}
	if f.c.eng.canInline(callee, f.depth) {
		// conservatively: scan callee body
		sub := f.c.newFrame(callee, nil)
		sub.depth = f.depth + 1
		sub.callerFrame = f
		if err := sub.findLoops(); err != nil {
			return nil, true
		}
		mod := map[string]bool{}
		all := false
		for _, b := range callee.Blocks {
			for _, in2 := range b.Instrs {
				switch y := in2.(type) {
				case *ssa.Store:
					if al, ok := storeRoot(y.Addr).(*ssa.Alloc); ok && !escapes(al) {
						continue // callee-local temporary
					}
					for _, k := range sub.staticHeapKeys(y.Addr) {
						mod[k] = true
					}
				case *ssa.MapUpdate:
					all = true
				case ssa.CallInstruction:
					ks, a := sub.callMods(y)
					if a {
						all = true
					}
					for _, k := range ks {
						mod[k] = true
					}
				}
			}
		}
		var ks []string
		for k := range mod {
			ks = append(ks, k)
		}
		return ks, all
	}
	return nil, true
}

// contractModKeys: heap key names of a contract's modifies clause.
func (f *Frame) contractModKeys(con *Contract, callee *ssa.Function) ([]string, bool) {
	if con.ModAll {
		return nil, true
	}
	var ks []string
	for _, m := range con.Modifies {
		keys, err := f.c.eng.modKeyNames(f.c, con, callee, m)
		if err != nil {
			return nil, true
		}
		ks = append(ks, keys...)
	}
	return ks, false
}

// ---------------------------------------------------------------------------

func (f *Frame) execCall(cur *blockCur, in ssa.Instruction, cc *ssa.CallCommon, res *ssa.Call) {
	c := f.c
	c.stats.calls++
	set := func(v Val) {
		if res != nil {
			if v.T == nil {
				v.T = res.Type()
			}
			f.vals[res] = v
			if pv, ok := f.c.preRet[in]; ok && f.callerFrame == nil {
				if v.S != "" && pv.S != "" {
					f.c.axiom(fmt.Sprintf("(= %s %s)", pv.S, v.S), pv.S)
				}
				for k := 0; k < len(pv.Tup) && k < len(v.Tup); k++ {
					if pv.Tup[k].S != "" && v.Tup[k].S != "" {
						f.c.axiom(fmt.Sprintf("(= %s %s)", pv.Tup[k].S, v.Tup[k].S), pv.Tup[k].S)
					}
				}
			}
			// returned(NAME) in specifications: the value of the latest call of NAME
			if f.callerFrame == nil {
				if f.c.lastCall == nil {
					f.c.lastCall = map[string]Val{}
				}
				if f.c.lastCallBlock == nil {
					f.c.lastCallBlock = map[string]*ssa.BasicBlock{}
				}
				if n := callHistName(cc); n != "" {
					f.c.lastCall[n] = v
					f.c.lastCallBlock[n] = in.Block()
					if f.c.callHist == nil {
						f.c.callHist = map[string][]callRec{}
					}
					recv := ""
					if cc.IsInvoke() {
						recv = f.c.termOf(f.val(cc.Value))
						if cc.Method.FullName() == "(context.Context).Err" && v.S != "" {
							// documented: "If Done is closed, Err returns a non-nil error ... After Err returns a non-nil error,
							// successive calls to Err return the same error." — on the same context value, an earlier non-nil
							// answer on this path fixes this one (assumption, listed)
							for _, pr := range f.c.callHist[n] {
								if pr.recv == recv && pr.val.S != "" {
									cur.assume(fmt.Sprintf("(=> (and %s (not (= %s iface_nil))) (= %s %s))", pr.cond, pr.val.S, v.S, pr.val.S))
									f.c.assume("context.Context.Err is stable once non-nil (documented behaviour of the context package)")
								}
							}
						}
					}
					f.c.callHist[n] = append(f.c.callHist[n], callRec{cond: cur.reach, val: v, recv: recv})
					// returned(NAME, k): the k-th call site of NAME in source order
					if k := f.callOrdinal(n, in); k > 0 {
						nk := fmt.Sprintf("%s#%d", n, k)
						f.c.lastCall[nk] = v
						f.c.lastCallBlock[nk] = in.Block()
						f.c.callHist[nk] = append(f.c.callHist[nk], callRec{cond: cur.reach, val: v})
					}
				}
			}
		}
	}
	var args []Val
	if cc.IsInvoke() {
		args = append(args, f.val(cc.Value))
	}
	for _, a := range cc.Args {
		args = append(args, f.val(a))
	}
	// builtins
	if b, ok := cc.Value.(*ssa.Builtin); ok {
		c.stats.callsBuiltin++
		if f.callerFrame == nil && (b.Name() == "append" || b.Name() == "copy" || b.Name() == "delete" || b.Name() == "close") {
			f.callAsserts(cur, in, cc, nil, args)
			f.countCall(cur, in, cc, nil)
			if c.callPre == nil {
				c.callPre = map[string]*State{}
			}
			c.callPre[b.Name()] = cur.st
			if c.callPreArgs == nil {
				c.callPreArgs = map[string][]Val{}
			}
			c.callPreArgs[b.Name()] = args
		}
		set(f.execBuiltin(cur, in, b, cc, args, res))
		return
	}
	callee := cc.StaticCallee()
	var bindings []Val
	if callee == nil && !cc.IsInvoke() {
		fv := f.val(cc.Value)
		if fv.Clo != nil {
			callee = fv.Clo.Fn
			bindings = fv.Clo.Bindings
		}
	} else if callee != nil {
		if mc, ok := cc.Value.(*ssa.MakeClosure); ok {
			for _, b := range mc.Bindings {
				bindings = append(bindings, f.val(b))
			}
		}
	}
	resType := cc.Signature().Results()
	var rt types.Type = resType
	if resType.Len() == 1 {
		rt = resType.At(0).Type()
	}
	hint := f.prefixSym() + "call"
	if res != nil {
		hint = f.prefixSym() + res.Name()
	}
	f.callAsserts(cur, in, cc, callee, args)
	f.countCall(cur, in, cc, callee)
	if f.callerFrame == nil {
		// before(NAME, E) in specifications: the state in which the (latest) call of NAME started
		if c.callPre == nil {
			c.callPre = map[string]*State{}
		}
		if c.callPreArgs == nil {
			c.callPreArgs = map[string][]Val{}
		}
		for _, n := range callNames(cc, callee) {
			c.callPre[n] = cur.st
			c.callPreArgs[n] = args
		}
	}
	if len(c.trackedCalls()) > 0 && f.callerFrame == nil {
		// the call counters are the verifier's own bookkeeping: whatever the call does to memory, they keep the value
		// they have now
		saved := map[string]string{}
		for _, n := range c.trackedCalls() {
			saved[n] = cur.st.get(callsKey(n))
		}
		defer func() {
			for _, n := range c.trackedCalls() {
				k := callsKey(n)
				if cur.st.get(k) != saved[n] {
					cur.st = cur.st.set(k, saved[n])
				}
			}
		}()
	}
	if callee == nil {
		if cc.IsInvoke() {
			if con := c.eng.ifaceContract(cc); con != nil {
				c.stats.callsContract++
				set(f.applyContract(cur, in, con, nil, cc.Method, args, nil, rt, hint))
				return
			}
		}
		// unknown dynamic call
		c.stats.callsHavoc++
		what := "dynamic call"
		if cc.IsInvoke() {
			what = "interface call " + cc.Method.FullName()
		}
		c.note("%s: result unconstrained, all heaps havocked", what)
		before := cur.st
		f.havocAll(cur)
		if gp := globalFuncVarPkg(cc); gp != nil && c.rootCon != nil {
			// a call through a package-level function variable (`var Slot = slot`) of an opaque package: whatever
			// function it holds was put there by that package's own code
			for _, o := range strings.Split(c.rootCon.Options["opaque-pkgs"], ",") {
				if strings.TrimSpace(o) == gp.Path() && f.c.lastHavocBase != nil {
					f.c.lastHavocBase.keepFrom = before
					f.c.lastHavocBase.keepPkg = gp
					c.assume("function variable of opaque package " + gp.Path() + " holds a function of that package (not reassigned from outside)")
				}
			}
		}
		r := f.freshVal(rt, hint)
		cur.assume(f.typeInv(r))
		cur.assume(c.refBound(r, cur.st.watermark()))
		set(r)
		return
	}
	name := fullName(callee)
	if h, ok := builtinModels[name]; ok {
		c.stats.callsBuiltin++
		set(h.fn(f, cur, in, cc, args, rt, hint))
		return
	}
	if c.opaqueCallee(callee) {
		// `option opaque-pkgs=<import path>,...` on the function under verification: code of those packages is not
		// looked into here (neither unfolded nor summarised): result unconstrained, every heap forgotten
		c.stats.callsHavoc++
		c.note("call to %s: package declared opaque for this proof, result unconstrained, all heaps havocked", shortFn(name))
		effBefore := ""
		if _, used := c.heapKeys["G_effects"]; used && c.cannotReachRootPkg(callee) {
			// code of a package that does not (transitively) import the package under verification cannot call its
			// Client / Hook methods: the counted effects are unchanged
			effBefore = cur.st.get(HeapKey{Name: "G_effects", Sort: "Int"})
		}
		before := cur.st
		f.havocAll(cur)
		if pk := calleePkg(callee); pk != nil && f.c.lastHavocBase != nil {
			f.c.lastHavocBase.keepFrom = before
			f.c.lastHavocBase.keepPkg = pk
			c.assume("code of an opaque package does not write fields of struct types declared in packages it does not import (no reflection / unsafe writes)")
		}
		if effBefore != "" {
			cur.assume(fmt.Sprintf("(= %s %s)", cur.st.get(HeapKey{Name: "G_effects", Sort: "Int"}), effBefore))
		}
		r := f.freshVal(rt, hint)
		cur.assume(f.typeInv(r))
		cur.assume(c.refBound(r, cur.st.watermark()))
		set(r)
		return
	}
	if con := c.eng.contractFor(callee); con != nil && !(con.Inline && c.eng.canInlineForce(callee)) {
		c.stats.callsContract++
		set(f.applyContract(cur, in, con, callee, nil, args, bindings, rt, hint))
		return
	}
	if pureExternal(name) {
		c.stats.callsBuiltin++
		set(f.pureUF(cur, callee, args, rt, hint))
		return
	}
	if c.eng.canInline(callee, f.depth) {
		c.stats.callsInline++
		if v, ok := f.inlineCall(cur, in, callee, args, bindings, rt, hint); ok {
			set(v)
			return
		}
	}
	c.stats.callsHavoc++
	c.note("call to %s: no contract, result unconstrained, all heaps havocked", shortFn(name))
	f.havocAll(cur)
	r := f.freshVal(rt, hint)
	cur.assume(f.typeInv(r))
	cur.assume(c.refBound(r, cur.st.watermark()))
	set(r)
}

func shortFn(n string) string {
	return strings.ReplaceAll(n, "github.com/redis/rueidis", "rueidis")
}

// havocAll forgets every heap, except cells of local allocations that never escaped.
func (f *Frame) havocAll(cur *blockCur) {
	old := cur.st
	ns := f.c.newBase()
	ns.immutFrom = old
	f.c.lastHavocBase = ns
	for _, lo := range f.c.localObjs {
		for _, k := range lo.keys {
			ns = ns.set(k, fmt.Sprintf("(store %s %s (select %s %s))", ns.get(k), lo.ref, old.get(k), lo.ref))
		}
	}
	// the ghost effect counter is unknown as well: the callee may have had effects
	cur.st = ns
	// the allocation watermark may have risen, never fallen (alloc.go)
	cur.assume(fmt.Sprintf("(>= %s %s)", ns.watermark(), old.watermark()))
	// foreign memory holds valid values after the unknown code as it did at entry: the objects the parameters point
	// to satisfy their declared type invariants (typeinv.go)
	root := f
	for root.callerFrame != nil {
		root = root.callerFrame
	}
	if root.fn != nil {
		for _, p := range root.fn.Params {
			pt, ok := p.Type().Underlying().(*types.Pointer)
			if !ok || !f.c.hasTypeInv(pt.Elem()) {
				continue
			}
			v, ok := root.vals[p]
			if !ok || v.S == "" {
				continue
			}
			obj := f.c.load(ns, &Ptr{Root: v.S, Obj: pt.Elem()}, pt.Elem())
			cur.assume(fmt.Sprintf("(=> (not (= %s 0)) %s)", v.S, f.c.userTypeInv(Val{T: pt.Elem(), S: obj})))
		}
	}
}

// callRec: one translated call of a name — the path condition under which it happened and what it returned.
type callRec struct {
	cond string
	val  Val
	recv string // receiver term of an interface-method call
}

// callHistName: the name under which returned(NAME) finds the call.
func callHistName(cc *ssa.CallCommon) string {
	if sc := cc.StaticCallee(); sc != nil {
		return stripTypeArgs(sc.Name())
	} else if cc.IsInvoke() {
		return cc.Method.Name()
	}
	return dynCallName(cc)
}

type localObj struct {
	ref   string
	keys  []HeapKey
	alloc ssa.Value // the allocation site (nil for captured variables)
}

// escapes reports whether the address of a local allocation may become known to other code.
func escapes(a ssa.Value) bool {
	seen := map[ssa.Value]bool{}
	var walk func(v ssa.Value) bool
	walk = func(v ssa.Value) bool {
		if seen[v] {
			return false
		}
		seen[v] = true
		refs := v.Referrers()
		if refs == nil {
			return true
		}
		for _, r := range *refs {
			switch x := r.(type) {
			case *ssa.DebugRef:
			case *ssa.FieldAddr:
				if walk(x) {
					return true
				}
			case *ssa.IndexAddr:
				if walk(x) {
					return true
				}
			case *ssa.UnOp:
				// load: fine
			case *ssa.Lookup, *ssa.Range:
				// reading a map
			case *ssa.MapUpdate:
				if x.Key == v || x.Value == v {
					return true // the map itself is stored into another map
				}
			case *ssa.Store:
				if x.Val == v {
					return true
				}
			case *ssa.Slice:
				if walk(x) {
					return true
				}
			case *ssa.Call:
				if b, ok := x.Call.Value.(*ssa.Builtin); ok {
					switch b.Name() {
					case "len", "cap", "copy":
						continue
					}
				}
				if callee := x.Call.StaticCallee(); callee != nil && !x.Call.IsInvoke() {
					leaks := false
					for i, a := range x.Call.Args {
						if a == v && paramLeaks(callee, i, 0) {
							leaks = true
						}
					}
					if !leaks {
						continue
					}
				}
				return true
			case *ssa.MakeClosure:
				// captured by a closure: harmless when the closure (and closures nested in it) only ever loads the
				// captured variable (a read-only capture: nobody but this function assigns the variable)
				cf, _ := x.Fn.(*ssa.Function)
				if cf == nil {
					return true
				}
				for i, b := range x.Bindings {
					if b == v && (i >= len(cf.FreeVars) || !readOnlyCapture(cf.FreeVars[i], 0)) {
						return true
					}
				}
			default:
				return true
			}
		}
		return false
	}
	return walk(a)
}

// readOnlyCapture: the free variable (a pointer to the captured variable) is only loaded from, or captured again by
// nested closures that only load it.
func readOnlyCapture(fv *ssa.FreeVar, depth int) bool {
	if depth > 4 || fv.Referrers() == nil {
		return false
	}
	for _, r := range *fv.Referrers() {
		switch x := r.(type) {
		case *ssa.DebugRef:
		case *ssa.UnOp:
			if x.Op != token.MUL {
				return false
			}
		case *ssa.MakeClosure:
			cf, _ := x.Fn.(*ssa.Function)
			if cf == nil {
				return false
			}
			for i, b := range x.Bindings {
				if b == ssa.Value(fv) && (i >= len(cf.FreeVars) || !readOnlyCapture(cf.FreeVars[i], depth+1)) {
					return false
				}
			}
		default:
			return false
		}
	}
	return true
}

// pureUF models a deterministic side-effect-free function as an uninterpreted function of its arguments.
func (f *Frame) pureUF(cur *blockCur, callee *ssa.Function, args []Val, rt types.Type, hint string) Val {
	c := f.c
	name := "uf_" + quoteSymInner(fnDisplayName(callee))
	var sorts, terms []string
	for _, a := range args {
		if _, ok := a.T.Underlying().(*types.Slice); ok && isByteSlice(a.T) {
			// pass the string view so that the result depends on contents
			k := c.so.heapArr(types.Typ[types.Byte])
			sorts = append(sorts, "Str")
			terms = append(terms, c.bytesToStr(cur.st.get(k), a.S))
			continue
		}
		sorts = append(sorts, c.so.sortOf(a.T))
		terms = append(terms, c.termOf(a))
	}
	mk := func(i int, t types.Type) Val {
		n := name
		if i >= 0 {
			n = fmt.Sprintf("%s_%d", name, i)
		}
		c.needDecl(n, fmt.Sprintf("(declare-fun %s (%s) %s)", n, strings.Join(sorts, " "), c.so.sortOf(t)))
		var term string
		if len(terms) == 0 {
			term = n
		} else {
			term = fmt.Sprintf("(%s %s)", n, strings.Join(terms, " "))
		}
		if strings.HasPrefix(hint, "spec_") {
			// used inside a specification (possibly under a quantifier): no global name for the term
			return Val{T: t, S: term}
		}
		return Val{T: t, S: c.define(fmt.Sprintf("%s_%d", hint, i+1), c.so.sortOf(t), term)}
	}
	var out Val
	if tup, ok := rt.(*types.Tuple); ok {
		out = Val{T: rt, Tup: []Val{}}
		for i := 0; i < tup.Len(); i++ {
			out.Tup = append(out.Tup, mk(i, tup.At(i).Type()))
		}
	} else {
		out = mk(-1, rt)
	}
	if !strings.HasPrefix(hint, "spec_") {
		cur.assume(f.typeInv(out))
	}
	return out
}

// ---------------------------------------------------------------------------
// builtins

func (f *Frame) execBuiltin(cur *blockCur, in ssa.Instruction, b *ssa.Builtin, cc *ssa.CallCommon, args []Val, res *ssa.Call) Val {
	c := f.c
	name := b.Name()
	switch name {
	case "len", "cap":
		a := args[0]
		var t string
		switch u := a.T.Underlying().(type) {
		case *types.Basic:
			t = fmt.Sprintf("(slen %s)", a.S)
		case *types.Slice:
			t = fmt.Sprintf("(s_%s %s)", name, a.S)
		case *types.Array:
			t = c.so.idxLit(u.Len())
		case *types.Pointer:
			t = c.so.idxLit(u.Elem().Underlying().(*types.Array).Len())
		case *types.Map:
			mt := u
			_, _, kl := f.mapKeys(mt)
			t = fmt.Sprintf("(ite (= %s 0) 0 (select %s %s))", a.S, cur.st.get(kl), a.S)
			r := Val{T: types.Typ[types.Int], S: c.define(f.prefixSym()+res.Name(), c.so.idxSort(), t)}
			cur.assume(c.iLe(c.so.idxLit(0), r.S))
			return r
		case *types.Chan:
			r := f.freshVal(types.Typ[types.Int], f.prefixSym()+res.Name())
			cur.assume(c.iLe(c.so.idxLit(0), r.S))
			return r
		default:
			f.unsupported("len of %s", a.T)
		}
		return Val{T: types.Typ[types.Int], S: c.define(f.prefixSym()+res.Name(), c.so.idxSort(), t)}
	case "min", "max":
		t := args[0].S
		for _, a := range args[1:] {
			var cmp string
			ct, err := c.binop(tokLSS, Val{T: a.T, S: t}, a, types.Typ[types.Bool])
			if err != nil {
				f.unsupported("min/max: %v", err)
			}
			cmp = ct
			if name == "min" {
				t = fmt.Sprintf("(ite %s %s %s)", cmp, t, a.S)
			} else {
				t = fmt.Sprintf("(ite %s %s %s)", cmp, a.S, t)
			}
		}
		return Val{T: res.Type(), S: c.define(f.prefixSym()+res.Name(), c.so.sortOf(res.Type()), t)}
	case "append":
		return f.execAppend(cur, in, cc, args, res)
	case "copy":
		return f.execCopy(cur, in, args, res)
	case "delete":
		f.mapDelete(cur, args[0], args[1])
		return Val{}
	case "print", "println":
		return Val{}
	case "close":
		c.stats.conc++
		f.recordEffect(cur, "close", args)
		return Val{}
	case "recover":
		c.note("recover(): modelled as returning nil (no panic in flight on normal paths)")
		return Val{T: res.Type(), S: "iface_nil"}
	case "ssa:wrapnilchk":
		return args[0]
	case "Slice": // unsafe.Slice(ptr, n)
		c.ptrModel()
		c.assume("unsafe.Slice(p, n): n elements starting at the element p points to (p = unsafe.SliceData of some slice, or an opaque pointer standing for element 0 of its own array)")
		n := c.toIdx(args[1])
		f.safety("unsafe-slice", cur, c.iLe(c.so.idxLit(0), n), in, "")
		p := c.termOf(args[0])
		return Val{T: res.Type(), S: c.define(f.prefixSym()+res.Name(), "Slice", fmt.Sprintf("(mk_slice (ptr_ref %s) (ptr_off %s) %s %s)", p, p, n, n))}
	case "SliceData": // unsafe.SliceData(s)
		c.ptrModel()
		c.assume("unsafe.SliceData(s): pointer to element 0 of s (nil for a slice without backing array)")
		sv := args[0].S
		return Val{T: res.Type(), S: c.define(f.prefixSym()+res.Name(), "Int", fmt.Sprintf("(ite (= (s_ref %s) 0) 0 (elem_ptr (s_ref %s) (s_off %s)))", sv, sv, sv))}
	case "String": // unsafe.String(ptr, n)
		c.ptrModel()
		c.assume("unsafe.String(p, n): the string of the n bytes p points to, as they are at the time of the call (the bytes must not be modified afterwards: Go's own requirement)")
		n := c.toIdx(args[1])
		f.safety("unsafe-string", cur, c.iLe(c.so.idxLit(0), n), in, "")
		p := c.termOf(args[0])
		hb := cur.st.get(c.so.heapArr(types.Typ[types.Byte]))
		c.bytesToStr(hb, "(mk_slice 0 0 0 0)") // declares str_of_bytes and its axioms
		return Val{T: res.Type(), S: c.define(f.prefixSym()+res.Name(), "Str", fmt.Sprintf("(ite (= %s 0) str_empty (str_of_bytes (select %s (ptr_ref %s)) (ptr_off %s) %s))", p, hb, p, p, n))}
	case "StringData": // unsafe.StringData(s)
		c.ptrModel()
		c.needDecl("str_data", "(declare-fun str_data (Str) Int)")
		c.assume("unsafe.StringData(s): a pointer to bytes that equal the bytes of s")
		sv := args[0].S
		pn := c.define(f.prefixSym()+res.Name(), "Int", fmt.Sprintf("(str_data %s)", sv))
		if c.mode == ModeInt {
			hb := cur.st.get(c.so.heapArr(types.Typ[types.Byte]))
			cur.assume(fmt.Sprintf("(forall ((i!sd Int)) (! (=> (and (<= 0 i!sd) (< i!sd (slen %s))) (= (select (select %s (ptr_ref %s)) (+ (ptr_off %s) i!sd)) (sat %s i!sd))) :pattern ((select (select %s (ptr_ref %s)) (+ (ptr_off %s) i!sd))) :pattern ((sat %s i!sd))))",
				sv, hb, pn, pn, sv, hb, pn, pn, sv))
			cur.assume(fmt.Sprintf("(=> (> (slen %s) 0) (> (ptr_ref %s) 0))", sv, pn))
		}
		return Val{T: res.Type(), S: pn}
	case "Add":
		f.unsupported("unsafe.Add")
	case "clear":
		f.unsupported("clear")
	}
	f.unsupported("builtin %s", name)
	return Val{}
}

func (f *Frame) execAppend(cur *blockCur, in ssa.Instruction, cc *ssa.CallCommon, args []Val, res *ssa.Call) Val {
	c := f.c
	s, e := args[0], args[1]
	st := s.T.Underlying().(*types.Slice)
	el := st.Elem()
	k := c.so.heapArr(el)
	h := cur.st.get(k)
	idx := c.so.idxSort()
	elS := c.so.sortOf(el)
	arrS := fmt.Sprintf("(Array %s %s)", idx, elS)
	hint := f.prefixSym() + res.Name()
	sl := fmt.Sprintf("(s_len %s)", s.S)
	var el_n string // number of appended elements
	var elemAt func(j string) string
	static := -1
	if isString(e.T) {
		el_n = fmt.Sprintf("(slen %s)", e.S)
		elemAt = func(j string) string { return fmt.Sprintf("(sat %s %s)", e.S, j) }
	} else {
		el_n = fmt.Sprintf("(s_len %s)", e.S)
		elemAt = func(j string) string {
			return fmt.Sprintf("(select (select %s (s_ref %s)) %s)", h, e.S, c.iAdd(fmt.Sprintf("(s_off %s)", e.S), j))
		}
		// variadic pack of a statically known number of elements?
		if sv, ok := cc.Args[1].(*ssa.Slice); ok && sv.Low == nil && sv.High == nil {
			if al, ok := sv.X.(*ssa.Alloc); ok {
				if at, ok := al.Type().Underlying().(*types.Pointer).Elem().Underlying().(*types.Array); ok && at.Len() <= 16 {
					static = int(at.Len())
				}
			}
		}
		if k2, ok := cc.Args[1].(*ssa.Const); ok && k2.Value == nil {
			static = 0
		}
	}
	newLen := c.define(hint+"_len", idx, c.iAdd(sl, el_n))
	inplace := c.define(hint+"_inplace", "Bool", c.iLe(newLen, fmt.Sprintf("(s_cap %s)", s.S)))
	fresh := c.declare(hint+"_ref", "Int")
	facts := []string{fmt.Sprintf("(> %s 0)", fresh)}
	for _, o := range c.allAllocs {
		facts = append(facts, fmt.Sprintf("(not (= %s %s))", fresh, o))
	}
	for _, o := range c.inputRefs {
		facts = append(facts, fmt.Sprintf("(not (= %s %s))", fresh, o))
	}
	facts = append(facts, fmt.Sprintf("(not (= %s (s_ref %s)))", fresh, s.S))
	c.allAllocs = append(c.allAllocs, fresh)
	// the (possibly unused) new backing array lies above the allocation watermark (alloc.go)
	facts = append(facts, fmt.Sprintf("(> %s %s)", fresh, cur.st.watermark()))
	cur.st = cur.st.set(allocKey, fresh)
	newCap := c.declare(hint+"_cap", idx)
	rref := fmt.Sprintf("(ite %s (s_ref %s) %s)", inplace, s.S, fresh)
	roff := fmt.Sprintf("(ite %s (s_off %s) %s)", inplace, s.S, c.so.idxLit(0))
	rcap := fmt.Sprintf("(ite %s (s_cap %s) %s)", inplace, s.S, newCap)
	// in-memory size assumption (as for every slice): fewer than 2^47 elements; it also covers the in-place case
	facts = append(facts, c.iLe(newLen, newCap), c.iLt(newCap, c.so.idxLit(1<<47)), c.iLt(newLen, c.so.idxLit(1<<47)))
	c.assume("slices hold fewer than 2^47 elements (in-memory object size); append cannot exceed it")
	r := c.define(hint, "Slice", fmt.Sprintf("(mk_slice %s %s %s %s)", rref, roff, newLen, rcap))
	// backing array of the result
	base := c.declare(hint+"_base", arrS)
	c.byteHeapAxiom(k, base, true)
	old := fmt.Sprintf("(select %s (s_ref %s))", h, s.S)
	if c.mode == ModeInt {
		// in place: base is the old array; realloc: base copies the prefix
		facts = append(facts, fmt.Sprintf("(=> %s (= %s %s))", inplace, base, old))
		facts = append(facts, fmt.Sprintf("(=> (not %s) (forall ((i Int)) (! (=> (and (<= 0 i) (< i %s)) (= (select %s i) (select %s (+ (s_off %s) i)))) :pattern ((select %s i)))))",
			inplace, sl, base, old, s.S, base))
	} else {
		facts = append(facts, fmt.Sprintf("(=> %s (= %s %s))", inplace, base, old))
		facts = append(facts, fmt.Sprintf("(=> (not %s) (forall ((i (_ BitVec 64))) (! (=> (and (bvsle (_ bv0 64) i) (bvslt i %s)) (= (select %s i) (select %s (bvadd (s_off %s) i)))) :pattern ((select %s i)))))",
			inplace, sl, base, old, s.S, base))
	}
	var narr string
	start := c.iAdd(fmt.Sprintf("(s_off %s)", r), sl)
	if static >= 0 {
		narr = base
		for j := 0; j < static; j++ {
			narr = fmt.Sprintf("(store %s %s %s)", narr, c.iAdd(start, c.so.idxLit(int64(j))), elemAt(c.so.idxLit(int64(j))))
		}
	} else {
		na := c.declare(hint+"_narr", arrS)
		if c.mode == ModeInt {
			facts = append(facts, fmt.Sprintf("(forall ((i Int)) (! (= (select %s i) (ite (and (<= %s i) (< i (+ %s %s))) %s (select %s i))) :pattern ((select %s i))))",
				na, start, start, el_n, elemAt(fmt.Sprintf("(- i %s)", start)), base, na))
		} else {
			facts = append(facts, fmt.Sprintf("(forall ((i (_ BitVec 64))) (! (= (select %s i) (ite (and (bvsle %s i) (bvslt i (bvadd %s %s))) %s (select %s i))) :pattern ((select %s i))))",
				na, start, start, el_n, elemAt(fmt.Sprintf("(bvsub i %s)", start)), base, na))
		}
		narr = na
	}
	cur.assume(and(facts...))
	cur.st = cur.st.set(k, fmt.Sprintf("(store %s (s_ref %s) %s)", h, r, narr))
	return Val{T: res.Type(), S: r}
}

func (f *Frame) execCopy(cur *blockCur, in ssa.Instruction, args []Val, res *ssa.Call) Val {
	c := f.c
	d, s := args[0], args[1]
	el := d.T.Underlying().(*types.Slice).Elem()
	k := c.so.heapArr(el)
	h := cur.st.get(k)
	idx := c.so.idxSort()
	hint := f.prefixSym() + "copy"
	if res != nil {
		hint = f.prefixSym() + res.Name()
	}
	var sn string
	var srcAt func(j string) string
	if isString(s.T) {
		sn = fmt.Sprintf("(slen %s)", s.S)
		srcAt = func(j string) string { return fmt.Sprintf("(sat %s %s)", s.S, j) }
	} else {
		sn = fmt.Sprintf("(s_len %s)", s.S)
		srcAt = func(j string) string {
			return fmt.Sprintf("(select (select %s (s_ref %s)) %s)", h, s.S, c.iAdd(fmt.Sprintf("(s_off %s)", s.S), j))
		}
	}
	dl := fmt.Sprintf("(s_len %s)", d.S)
	n := c.define(hint+"_n", idx, fmt.Sprintf("(ite %s %s %s)", c.iLt(dl, sn), dl, sn))
	arrS := fmt.Sprintf("(Array %s %s)", idx, c.so.sortOf(el))
	na := c.declare(hint+"_narr", arrS)
	old := fmt.Sprintf("(select %s (s_ref %s))", h, d.S)
	doff := fmt.Sprintf("(s_off %s)", d.S)
	if c.mode == ModeInt {
		cur.assume(fmt.Sprintf("(forall ((i Int)) (! (= (select %s i) (ite (and (<= %s i) (< i (+ %s %s))) %s (select %s i))) :pattern ((select %s i))))",
			na, doff, doff, n, srcAt(fmt.Sprintf("(- i %s)", doff)), old, na))
	} else {
		cur.assume(fmt.Sprintf("(forall ((i (_ BitVec 64))) (! (= (select %s i) (ite (and (bvsle %s i) (bvslt i (bvadd %s %s))) %s (select %s i))) :pattern ((select %s i))))",
			na, doff, doff, n, srcAt(fmt.Sprintf("(bvsub i %s)", doff)), old, na))
	}
	cur.st = cur.st.set(k, fmt.Sprintf("(store %s (s_ref %s) %s)", h, d.S, na))
	if bp, ok := c.interior[d.S]; ok {
		// the destination views an array embedded in another object: write the new contents back
		cur.st = c.store(cur.st, bp, na)
	}
	return Val{T: types.Typ[types.Int], S: n}
}

// ---------------------------------------------------------------------------
// inlining of small loop-free callees

func (f *Frame) inlineCall(cur *blockCur, in ssa.Instruction, callee *ssa.Function, args []Val, bindings []Val, rt types.Type, hint string) (Val, bool) {
	c := f.c
	sub := c.newFrame(callee, nil)
	sub.depth = f.depth + 1
	sub.callerFrame = f
	c.inlineSeq++
	seq := c.inlineSeq
	sub.prefixOverride = fmt.Sprintf("i%d_%s_", seq, quoteSymInner(callee.Name()))
	if con := c.eng.contractFor(callee); con != nil && len(con.Safety) > 0 && in != nil {
		sub.suppress = true
		for _, a := range args {
			f.checkTypeInv(cur, a, in, "argument of "+con.Func)
		}
	}
	if con := c.eng.contractFor(callee); con != nil && len(con.Requires) > 0 && in != nil {
		env := &SpecEnv{c: c, st: cur.st, old: cur.st, names: map[string]Val{}}
		if callee.Pkg != nil {
			env.pkg = callee.Pkg.Pkg
		}
		for i, p := range callee.Params {
			if i < len(args) {
				v := args[i]
				v.T = p.Type()
				env.names[p.Name()] = v
			}
		}
		for _, cl := range con.Requires {
			t, err := env.evalBool(cl.Expr)
			if err != nil {
				f.unsupported("requires of %s: %v", con.Func, err)
			}
			f.c.addObligation(&Obligation{Name: f.oblName("pre", con.Func+"/"+clauseLabel(cl)), Class: "requires", Props: f.allProps(), Guard: cur.reach, Goal: t,
				Pos: c.eng.posString(in.Pos()), Src: cl.Text})
			cur.assume(t)
		}
	}
	for i, p := range callee.Params {
		if i >= len(args) {
			return Val{}, false
		}
		v := args[i]
		v.T = p.Type()
		sub.vals[p] = v
	}
	for i, fv := range callee.FreeVars {
		if i >= len(bindings) {
			return Val{}, false
		}
		sub.vals[fv] = bindings[i]
	}
	nobl := len(c.obls)
	ndefs := len(c.defs)
	_ = ndefs
	if err := sub.run(cur.st, cur.reach); err != nil {
		// roll back obligations produced by the failed attempt
		c.obls = c.obls[:nobl]
		c.note("could not inline %s: %v", shortFn(fullName(callee)), err)
		return Val{}, false
	}
	if len(sub.rets) == 0 {
		// callee never returns (always panics)
		cur.dead = true
		return f.freshVal(rt, hint), true
	}
	var conds []string
	var edges []joinEdge
	var rvals []Val
	for _, r := range sub.rets {
		conds = append(conds, r.reach)
		edges = append(edges, joinEdge{cond: r.reach, st: r.st})
		var v Val
		if tup, ok := rt.(*types.Tuple); ok {
			v = Val{T: rt, Tup: []Val{}}
			for i := 0; i < tup.Len(); i++ {
				x := r.vals[i]
				x.T = tup.At(i).Type()
				v.Tup = append(v.Tup, x)
			}
		} else if len(r.vals) == 1 {
			v = r.vals[0]
			v.T = rt
		}
		rvals = append(rvals, v)
	}
	cur.st = c.joinStates(edges)
	cur.n++
	cur.reach = c.define(fmt.Sprintf("%sb%d_r%d", f.prefixSym(), cur.b.Index, cur.n), "Bool", or(conds...))
	if len(rvals) == 0 || (rvals[0].S == "" && rvals[0].Tup == nil && rvals[0].P == nil) {
		return Val{T: rt, Tup: []Val{}}, true
	}
	return f.mergeVals(rt, rvals, conds, hint), true
}

// opaqueCallee: the callee belongs to a package the root contract declares opaque (`option opaque-pkgs=p1,p2`).
func (c *FuncCtx) opaqueCallee(callee *ssa.Function) bool {
	if c.rootCon == nil || callee == nil {
		return false
	}
	list := c.rootCon.Options["opaque-pkgs"]
	if list == "" {
		return false
	}
	pk := callee.Pkg
	for p := callee.Parent(); pk == nil && p != nil; p = p.Parent() {
		pk = p.Pkg
	}
	if pk == nil && callee.Origin() != nil {
		pk = callee.Origin().Pkg
	}
	if pk == nil {
		return false
	}
	for _, o := range strings.Split(list, ",") {
		if strings.TrimSpace(o) == pk.Pkg.Path() {
			return true
		}
	}
	return false
}

// cannotReachRootPkg: the callee's package does not import, directly or transitively, the package of the function
// under verification (so it cannot call the methods whose calls `effects()` counts there).
func (c *FuncCtx) cannotReachRootPkg(callee *ssa.Function) bool {
	if c.rootFn == nil || callee == nil {
		return false
	}
	rp := c.rootFn.Pkg
	for p := c.rootFn.Parent(); rp == nil && p != nil; p = p.Parent() {
		rp = p.Pkg
	}
	pk := callee.Pkg
	for p := callee.Parent(); pk == nil && p != nil; p = p.Parent() {
		pk = p.Pkg
	}
	if pk == nil && callee.Origin() != nil {
		pk = callee.Origin().Pkg
	}
	if rp == nil || pk == nil || pk == rp {
		return false
	}
	seen := map[*types.Package]bool{}
	var reach func(p *types.Package) bool
	reach = func(p *types.Package) bool {
		if p == rp.Pkg {
			return true
		}
		if seen[p] {
			return false
		}
		seen[p] = true
		for _, im := range p.Imports() {
			if reach(im) {
				return true
			}
		}
		return false
	}
	if reach(pk.Pkg) {
		return false
	}
	c.assume("package " + pk.Pkg.Path() + " does not import " + rp.Pkg.Path() + " (checked): its code cannot perform the calls that effects() counts")
	return true
}

func calleePkg(callee *ssa.Function) *types.Package {
	if callee == nil {
		return nil
	}
	pk := callee.Pkg
	for p := callee.Parent(); pk == nil && p != nil; p = p.Parent() {
		pk = p.Pkg
	}
	if pk == nil && callee.Origin() != nil {
		pk = callee.Origin().Pkg
	}
	if pk == nil {
		return nil
	}
	return pk.Pkg
}

// callNames: the short names under which a call can be referred to in specifications.
func callNames(cc *ssa.CallCommon, callee *ssa.Function) []string {
	switch {
	case callee != nil:
		return []string{stripTypeArgs(callee.Name())}
	case cc.IsInvoke():
		return []string{cc.Method.Name()}
	}
	if dn := dynCallName(cc); dn != "" {
		return []string{dn}
	}
	if b, ok := cc.Value.(*ssa.Builtin); ok {
		return []string{b.Name()}
	}
	return nil
}

// globalFuncVarPkg: the call goes through a package-level variable of function type; returns that variable's package.
func globalFuncVarPkg(cc *ssa.CallCommon) *types.Package {
	if u, ok := cc.Value.(*ssa.UnOp); ok {
		if g, ok := u.X.(*ssa.Global); ok && g.Pkg != nil {
			return g.Pkg.Pkg
		}
	}
	return nil
}
