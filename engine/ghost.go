package main

// Ghost fields: `//@ ghost name *T R` declares a verifier-only field of type R on objects of type T, kept in its own
// heap G_name : Array Int S(R). `name(x)` reads it in specifications; `modifies name(x)` in a contract lets the callee
// change it (its postconditions then say how). A freshly allocated T starts with the zero value of R.

import (
	"fmt"
	"go/types"
	"regexp"
)

var ghostItemRe = regexp.MustCompile(`^(\w+)\((.*)\)$`)

func (e *Engine) ghostOf(item string) (*GhostDef, string) {
	m := ghostItemRe.FindStringSubmatch(item)
	if m == nil {
		return nil, ""
	}
	gd := e.cs.Ghosts[m[1]]
	if gd == nil {
		return nil, ""
	}
	return gd, m[2]
}

func (c *FuncCtx) ghostKey(gd *GhostDef, env *SpecEnv) HeapKey {
	rt := env.lookupType(gd.ResType)
	return HeapKey{Name: "G_" + gd.Name, Sort: fmt.Sprintf("(Array Int %s)", c.so.sortOf(rt))}
}

func (e *SpecEnv) ghostRead(gd *GhostDef, arg Val) Val {
	if e.st == nil {
		e.fail("ghost field %s read without a state", gd.Name)
	}
	k := e.c.ghostKey(gd, e)
	return Val{T: e.lookupType(gd.ResType), S: fmt.Sprintf("(select %s %s)", e.st.get(k), e.c.termOf(arg))}
}

// ghostInitAlloc gives the ghost fields of a freshly allocated object their zero values.
func (f *Frame) ghostInitAlloc(cur *blockCur, t types.Type, ref string) {
	c := f.c
	for _, name := range sortedKeys(c.eng.cs.Ghosts) {
		gd := c.eng.cs.Ghosts[name]
		env := f.specEnv(nil, cur.st, nil)
		ot, ok := tryLookupType(env, gd.ObjType)
		if !ok {
			continue
		}
		pt, isPtr := ot.(*types.Pointer)
		if !isPtr || !types.Identical(pt.Elem(), t) {
			continue
		}
		k := c.ghostKey(gd, env)
		cur.st = cur.st.set(k, fmt.Sprintf("(store %s %s %s)", cur.st.get(k), ref, c.so.zero(env.lookupType(gd.ResType))))
	}
}

func tryLookupType(env *SpecEnv, name string) (t types.Type, ok bool) {
	defer func() {
		if r := recover(); r != nil {
			ok = false
		}
	}()
	return env.lookupType(name), true
}
