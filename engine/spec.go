package main

// Contract files and the specification expression language.
//
// Contracts live in comment-only Go files behind the `verif` build tag inside
// /repo (zz_verif_contracts.go, one per package).  Every line that starts with
// `//@` is part of a contract.  See DESIGN.md Appendix C for the grammar.

import (
	"fmt"
	"os"
	"path/filepath"
	"regexp"
	"strconv"
	"strings"
)

// ---------------------------------------------------------------------------
// Spec expression AST

type SpecExpr interface{ String() string }

type (
	SIdent  struct{ Name string }
	SInt    struct{ V string } // decimal text (may exceed int64)
	SStr    struct{ V string }
	SBool   struct{ V bool }
	SNil    struct{}
	SUnary  struct {
		Op string
		X  SpecExpr
	}
	SBinary struct {
		Op   string
		X, Y SpecExpr
	}
	SCall struct {
		Fun  SpecExpr // SIdent or SSelector (method)
		Args []SpecExpr
	}
	SSelector struct {
		X   SpecExpr
		Sel string
	}
	SIndex struct{ X, I SpecExpr }
	SSlice struct {
		X      SpecExpr
		Lo, Hi SpecExpr // may be nil
	}
	SQuant struct {
		Forall bool
		Vars   []SVar
		Body   SpecExpr
		Pats   [][]SpecExpr // optional triggers  {:pat e1, e2}
	}
	SVar struct{ Name, Type string }
)

func (e *SIdent) String() string { return e.Name }
func (e *SInt) String() string   { return e.V }
func (e *SStr) String() string   { return strconv.Quote(e.V) }
func (e *SBool) String() string  { return fmt.Sprint(e.V) }
func (e *SNil) String() string   { return "nil" }
func (e *SUnary) String() string { return e.Op + e.X.String() }
func (e *SBinary) String() string {
	return "(" + e.X.String() + " " + e.Op + " " + e.Y.String() + ")"
}
func (e *SCall) String() string {
	var as []string
	for _, a := range e.Args {
		as = append(as, a.String())
	}
	return e.Fun.String() + "(" + strings.Join(as, ", ") + ")"
}
func (e *SSelector) String() string { return e.X.String() + "." + e.Sel }
func (e *SIndex) String() string    { return e.X.String() + "[" + e.I.String() + "]" }
func (e *SSlice) String() string {
	lo, hi := "", ""
	if e.Lo != nil {
		lo = e.Lo.String()
	}
	if e.Hi != nil {
		hi = e.Hi.String()
	}
	return e.X.String() + "[" + lo + ":" + hi + "]"
}
func (e *SQuant) String() string {
	q := "exists"
	if e.Forall {
		q = "forall"
	}
	var vs []string
	for _, v := range e.Vars {
		vs = append(vs, v.Name+" "+v.Type)
	}
	return "(" + q + " " + strings.Join(vs, ", ") + " :: " + e.Body.String() + ")"
}

// ---------------------------------------------------------------------------
// Lexer

type tok struct {
	kind string // ident int str char op eof
	text string
	pos  int
}

var ops = []string{"<==>", "==>", "::", "&&", "||", "==", "!=", "<=", ">=", "<<", ">>", "&^",
	"+", "-", "*", "/", "%", "&", "|", "^", "<", ">", "!", ".", "[", "]", "(", ")", ",", ":", "{", "}"}

func lexSpec(s string) ([]tok, error) {
	var ts []tok
	i := 0
	for i < len(s) {
		c := s[i]
		switch {
		case c == ' ' || c == '\t' || c == '\n':
			i++
		case c >= '0' && c <= '9':
			j := i
			if c == '0' && j+1 < len(s) && (s[j+1] == 'x' || s[j+1] == 'X') {
				j += 2
				for j < len(s) && strings.ContainsRune("0123456789abcdefABCDEF_", rune(s[j])) {
					j++
				}
			} else {
				for j < len(s) && (s[j] >= '0' && s[j] <= '9' || s[j] == '_') {
					j++
				}
			}
			ts = append(ts, tok{"int", strings.ReplaceAll(s[i:j], "_", ""), i})
			i = j
		case c == '_' || c >= 'a' && c <= 'z' || c >= 'A' && c <= 'Z':
			j := i
			for j < len(s) && (s[j] == '_' || s[j] == '$' || s[j] >= 'a' && s[j] <= 'z' || s[j] >= 'A' && s[j] <= 'Z' || s[j] >= '0' && s[j] <= '9') {
				j++
			}
			ts = append(ts, tok{"ident", s[i:j], i})
			i = j
		case c == '"':
			j := i + 1
			for j < len(s) && s[j] != '"' {
				if s[j] == '\\' {
					j++
				}
				j++
			}
			if j >= len(s) {
				return nil, fmt.Errorf("unterminated string at %d", i)
			}
			v, err := strconv.Unquote(s[i : j+1])
			if err != nil {
				return nil, err
			}
			ts = append(ts, tok{"str", v, i})
			i = j + 1
		case c == '\'':
			j := i + 1
			for j < len(s) && s[j] != '\'' {
				if s[j] == '\\' {
					j++
				}
				j++
			}
			if j >= len(s) {
				return nil, fmt.Errorf("unterminated char at %d", i)
			}
			r, _, _, err := strconv.UnquoteChar(s[i+1:j], '\'')
			if err != nil {
				return nil, err
			}
			ts = append(ts, tok{"int", strconv.Itoa(int(r)), i})
			i = j + 1
		default:
			found := false
			for _, op := range ops {
				if strings.HasPrefix(s[i:], op) {
					ts = append(ts, tok{"op", op, i})
					i += len(op)
					found = true
					break
				}
			}
			if !found {
				return nil, fmt.Errorf("bad character %q at %d in %q", c, i, s)
			}
		}
	}
	ts = append(ts, tok{"eof", "", len(s)})
	return ts, nil
}

// ---------------------------------------------------------------------------
// Parser (precedence climbing)

type specParser struct {
	ts  []tok
	p   int
	src string
}

func parseSpec(s string) (e SpecExpr, err error) {
	ts, err := lexSpec(s)
	if err != nil {
		return nil, err
	}
	p := &specParser{ts: ts, src: s}
	defer func() {
		if r := recover(); r != nil {
			if pe, ok := r.(parseErr); ok {
				err = fmt.Errorf("%s in %q", string(pe), s)
				return
			}
			panic(r)
		}
	}()
	e = p.expr(0)
	if p.peek().kind != "eof" {
		p.fail("unexpected %q", p.peek().text)
	}
	return e, nil
}

type parseErr string

func (p *specParser) fail(f string, a ...any) { panic(parseErr(fmt.Sprintf(f, a...))) }
func (p *specParser) peek() tok               { return p.ts[p.p] }
func (p *specParser) next() tok               { t := p.ts[p.p]; p.p++; return t }
func (p *specParser) isOp(s string) bool      { t := p.peek(); return t.kind == "op" && t.text == s }
func (p *specParser) expect(s string) {
	if !p.isOp(s) {
		p.fail("expected %q got %q", s, p.peek().text)
	}
	p.p++
}

var binPrec = map[string]int{
	"<==>": 1, "==>": 2, "||": 3, "&&": 4,
	"==": 5, "!=": 5, "<": 5, "<=": 5, ">": 5, ">=": 5,
	"+": 6, "-": 6, "|": 6, "^": 6,
	"*": 7, "/": 7, "%": 7, "<<": 7, ">>": 7, "&": 7, "&^": 7,
}

func (p *specParser) expr(minPrec int) SpecExpr {
	x := p.unary()
	for {
		t := p.peek()
		if t.kind != "op" {
			return x
		}
		pr, ok := binPrec[t.text]
		if !ok || pr < minPrec {
			return x
		}
		p.next()
		var y SpecExpr
		if t.text == "==>" || t.text == "<==>" {
			y = p.expr(pr) // right assoc
		} else {
			y = p.expr(pr + 1)
		}
		x = &SBinary{Op: t.text, X: x, Y: y}
	}
}

func (p *specParser) unary() SpecExpr {
	t := p.peek()
	if t.kind == "op" && (t.text == "!" || t.text == "-" || t.text == "^" || t.text == "&" || t.text == "*") {
		p.next()
		return &SUnary{Op: t.text, X: p.unary()}
	}
	if t.kind == "ident" && (t.text == "forall" || t.text == "exists") {
		p.next()
		q := &SQuant{Forall: t.text == "forall"}
		for {
			var names []string
			names = append(names, p.ident())
			for p.isOp(",") {
				p.next()
				names = append(names, p.ident())
			}
			// last "name" may be followed by type
			typ := p.typeName()
			for _, n := range names {
				q.Vars = append(q.Vars, SVar{n, typ})
			}
			if p.isOp(",") {
				p.next()
				continue
			}
			break
		}
		p.expect("::")
		for p.isOp("{") { // trigger
			p.next()
			var pat []SpecExpr
			pat = append(pat, p.expr(0))
			for p.isOp(",") {
				p.next()
				pat = append(pat, p.expr(0))
			}
			p.expect("}")
			q.Pats = append(q.Pats, pat)
		}
		q.Body = p.expr(0)
		return q
	}
	return p.postfix(p.primary())
}

func (p *specParser) ident() string {
	t := p.next()
	if t.kind != "ident" {
		p.fail("expected identifier got %q", t.text)
	}
	return t.text
}

// typeName parses a (possibly qualified / pointer / slice) type name as text.
func (p *specParser) typeName() string {
	var b strings.Builder
	for p.isOp("*") || p.isOp("[") {
		if p.isOp("*") {
			p.next()
			b.WriteString("*")
		} else {
			p.next()
			if p.peek().kind == "int" {
				b.WriteString("[" + p.next().text + "]")
				p.expect("]")
			} else {
				p.expect("]")
				b.WriteString("[]")
			}
		}
	}
	b.WriteString(p.ident())
	if p.isOp(".") {
		p.next()
		b.WriteString("." + p.ident())
	}
	return b.String()
}

func (p *specParser) primary() SpecExpr {
	t := p.next()
	switch t.kind {
	case "int":
		if strings.HasPrefix(t.text, "0x") || strings.HasPrefix(t.text, "0X") {
			v, err := strconv.ParseUint(t.text[2:], 16, 64)
			if err != nil {
				p.fail("bad hex %s", t.text)
			}
			return &SInt{V: strconv.FormatUint(v, 10)}
		}
		return &SInt{V: t.text}
	case "str":
		return &SStr{V: t.text}
	case "ident":
		switch t.text {
		case "true":
			return &SBool{true}
		case "false":
			return &SBool{false}
		case "nil":
			return &SNil{}
		}
		return &SIdent{Name: t.text}
	case "op":
		if t.text == "(" {
			e := p.expr(0)
			p.expect(")")
			return e
		}
		if t.text == "[" || t.text == "*" { // conversion to slice / pointer type e.g. []byte(x)
			p.p--
			tn := p.typeName()
			return &SIdent{Name: tn}
		}
	}
	p.fail("unexpected token %q", t.text)
	return nil
}

func (p *specParser) postfix(x SpecExpr) SpecExpr {
	for {
		switch {
		case p.isOp("."):
			p.next()
			x = &SSelector{X: x, Sel: p.ident()}
		case p.isOp("("):
			p.next()
			var args []SpecExpr
			for !p.isOp(")") {
				args = append(args, p.expr(0))
				if p.isOp(",") {
					p.next()
				} else {
					break
				}
			}
			p.expect(")")
			x = &SCall{Fun: x, Args: args}
		case p.isOp("["):
			p.next()
			var lo, hi SpecExpr
			if p.isOp(":") {
				p.next()
				if !p.isOp("]") {
					hi = p.expr(0)
				}
				p.expect("]")
				x = &SSlice{X: x, Lo: nil, Hi: hi}
				continue
			}
			lo = p.expr(0)
			if p.isOp(":") {
				p.next()
				if !p.isOp("]") {
					hi = p.expr(0)
				}
				p.expect("]")
				x = &SSlice{X: x, Lo: lo, Hi: hi}
				continue
			}
			p.expect("]")
			x = &SIndex{X: x, I: lo}
		default:
			return x
		}
	}
}

// ---------------------------------------------------------------------------
// Contracts

type Clause struct {
	Kind  string   // requires ensures invariant assert panics
	Props []string // property ids this clause is claimed for
	Label string
	Expr  SpecExpr
	Text  string
	Loop  int // for invariants
	Line  string
	At    string // assert: the callee at whose call sites the assertion is checked (arg0.. are the call's arguments)
}

type SpecFn struct {
	Name   string
	Params []SVar
	Ret    string
	Body   SpecExpr // nil => uninterpreted
	Rec    bool
	Opaque bool // declared as an uninterpreted function plus a defining axiom triggered on its applications
	Pkg    string // import path of the package whose contract file defines it ("" for stand-alone spec files)
	Abstract bool // opaque, and the defining axiom is only available inside lemma proofs
	Macro  bool // expanded at every use, in the state of the using clause (may read memory through its arguments)
}

type Axiom struct {
	Name   string
	Expr   SpecExpr
	Text   string
	Proved bool // comes from a `lemma [... use]`: discharged as its own obligation, not an assumption
}

type Contract struct {
	Pkg        string // package path the file belongs to
	Func       string // qualified name, e.g. "pickAZ", "lru.Update", "newAZSelector$1"
	External   bool   // assumed, not verified
	Mode       Mode
	Requires   []*Clause
	Ensures    []*Clause
	Invariants map[int][]*Clause
	LoopMods   map[int][]string
	Tag        string // `func NAME #tag`: a second verification of the same function
	RepeatIf   map[int][]*Clause // loop N: repeat-only-if E — checked at every back edge, in the state at the end of the iteration
	Asserts    []*Clause
	Safety     map[string][]string // property -> classes ("*" = all)
	Props      map[string]bool
	Modifies   []string
	ModAll     bool
	Pure       bool
	Inline     bool
	PanicsWhen []*Clause
	NoOverflow bool
	Unroll     int
	Options    map[string]string
	File       string
	Lemmas     []*Clause // proved standalone in function context-less
	Swept      bool
	Lets       []LetDef
}

type ContractSet struct {
	Funcs   map[string]*Contract // key: pkgpath + "::" + func
	SpecFns map[string]*SpecFn
	Axioms  []*Axiom
	Lemmas  []*Lemma
	Order   []string
	TypeInvs map[string]*Clause // pkgpath::TypeName -> invariant over `self`
	Ghosts   map[string]*GhostDef
	Sweeps  []*Sweep
	Immutables []*Immutable
}

// Sweep: a safety-only contract template instantiated for every function declared in a source file.
type Sweep struct {
	Pkg      string
	Prop     string
	File     string
	Exclude  map[string]bool
	Template *Contract
}

type Lemma struct {
	Name  string
	Props []string
	Expr  SpecExpr
	Text  string
	Mode  Mode
	Pkg   string
	Uses  []string // axioms by name (empty => all)
	Expect string  // "unsat" (default) or "sat" for known-failing lemmas
	RawFile string // lemma given as an SMT-LIB file
}

var labelRe = regexp.MustCompile(`^\[([^\]]*)\]\s*`)
var propRe = regexp.MustCompile(`^C\d\d$`)

func parseLabel(s string) (props []string, label string, rest string) {
	m := labelRe.FindStringSubmatch(s)
	if m == nil {
		return nil, "", s
	}
	rest = s[len(m[0]):]
	for _, f := range strings.Fields(strings.ReplaceAll(m[1], ",", " ")) {
		if propRe.MatchString(f) {
			props = append(props, f)
		} else if label == "" {
			label = f
		} else {
			label += "-" + f
		}
	}
	return
}

var assertAtRe = regexp.MustCompile(`^at\s+([^\s:]+)\s*:\s*(.*)$`)

var clauseKeywords = map[string]bool{"func": true, "external": true, "requires": true, "ensures": true, "loop": true,
	"modifies": true, "pure": true, "mode": true, "safety": true, "assert": true, "panics": true, "specfn": true,
	"axiom": true, "lemma": true, "inline": true, "option": true, "unroll": true, "typeinv": true, "sweep": true, "uses-global": true, "let": true, "ghost": true, "immutable": true}

// GhostDef: a verifier-only field. `name(x)` in specifications reads it; `modifies name(x)` lets a contract change it.
type GhostDef struct {
	Name, ObjType, ResType, Pkg string
}

type LetDef struct {
	Name string
	Expr SpecExpr
}

// loadContracts reads every zz_verif_contracts*.go under dir (non recursive) and
// additional spec files.
func loadContractFile(cs *ContractSet, path, pkgPath string) error {
	data, err := os.ReadFile(path)
	if err != nil {
		return err
	}
	var lines []string
	for _, ln := range strings.Split(string(data), "\n") {
		t := strings.TrimSpace(ln)
		if !strings.HasPrefix(t, "//@") {
			continue
		}
		body := strings.TrimSpace(t[3:])
		if body == "" {
			continue
		}
		first := strings.Fields(body)[0]
		first = strings.TrimSuffix(first, ":")
		if clauseKeywords[first] || len(lines) == 0 {
			lines = append(lines, body)
		} else {
			lines[len(lines)-1] += " " + body
		}
	}
	var cur *Contract
	for _, ln := range lines {
		fs := strings.Fields(ln)
		kw := strings.TrimSuffix(fs[0], ":")
		rest := strings.TrimSpace(ln[len(fs[0]):])
		fail := func(err error) error { return fmt.Errorf("%s: %q: %v", filepath.Base(path), ln, err) }
		switch kw {
		case "func", "external":
			name := fs[1]
			cur = &Contract{Pkg: pkgPath, Func: name, External: kw == "external", Invariants: map[int][]*Clause{}, LoopMods: map[int][]string{},
				Safety: map[string][]string{}, Props: map[string]bool{}, Options: map[string]string{}, File: path}
			key := pkgPath + "::" + name
			if len(fs) > 2 && strings.HasPrefix(fs[2], "#") {
				// `func NAME #tag`: a second, independent verification of NAME (e.g. in the other integer mode). Callers
				// still see the untagged contract; the tag only makes the key (and the obligation names) distinct.
				key += fs[2]
				cur.Tag = fs[2]
			}
			if kw == "external" {
				key = name
			}
			if _, dup := cs.Funcs[key]; dup {
				return fail(fmt.Errorf("duplicate contract for %s", key))
			}
			cs.Funcs[key] = cur
			cs.Order = append(cs.Order, key)
		case "requires", "ensures", "assert":
			if cur == nil {
				return fail(fmt.Errorf("clause outside func"))
			}
			props, label, r := parseLabel(rest)
			at := ""
			if kw == "assert" {
				// assert [label] at CALLEE: E — checked immediately before every call of CALLEE in the body
				m := assertAtRe.FindStringSubmatch(r)
				if m == nil {
					return fail(fmt.Errorf("assert needs `at <callee>: E`"))
				}
				at, r = m[1], m[2]
			}
			e, err := parseSpec(r)
			if err != nil {
				return fail(err)
			}
			c := &Clause{Kind: kw, Props: props, Label: label, Expr: e, Text: r, Line: ln, At: at}
			for _, p := range props {
				cur.Props[p] = true
			}
			switch kw {
			case "requires":
				cur.Requires = append(cur.Requires, c)
			case "ensures":
				cur.Ensures = append(cur.Ensures, c)
			case "assert":
				cur.Asserts = append(cur.Asserts, c)
			}
		case "loop":
			if cur == nil {
				return fail(fmt.Errorf("clause outside func"))
			}
			// loop N: invariant [label] E   |  loop N: modifies-all
			m := regexp.MustCompile(`^(\d+)\s*:\s*(\w+)\s*(.*)$`).FindStringSubmatch(rest)
			if m == nil {
				return fail(fmt.Errorf("bad loop clause"))
			}
			n, _ := strconv.Atoi(m[1])
			switch m[2] {
			case "invariant":
				props, label, r := parseLabel(m[3])
				e, err := parseSpec(r)
				if err != nil {
					return fail(err)
				}
				cur.Invariants[n] = append(cur.Invariants[n], &Clause{Kind: "invariant", Props: props, Label: label, Expr: e, Text: r, Loop: n, Line: ln})
			case "repeat":
				// loop N: repeat-only-if [label] E   (m[3] starts with "-only-if")
				r0 := strings.TrimSpace(strings.TrimPrefix(m[3], "-only-if"))
				props, label, r := parseLabel(r0)
				e, err := parseSpec(r)
				if err != nil {
					return fail(err)
				}
				if cur.RepeatIf == nil {
					cur.RepeatIf = map[int][]*Clause{}
				}
				for _, p := range props {
					cur.Props[p] = true
				}
				cur.RepeatIf[n] = append(cur.RepeatIf[n], &Clause{Kind: "repeat-only-if", Props: props, Label: label, Expr: e, Text: r, Loop: n, Line: ln})
			default:
				return fail(fmt.Errorf("unknown loop clause %s", m[2]))
			}
		case "modifies":
			if cur == nil {
				return fail(fmt.Errorf("clause outside func"))
			}
			for _, f := range strings.Split(rest, ",") {
				f = strings.TrimSpace(f)
				if f == "*" {
					cur.ModAll = true
				} else if f != "" {
					cur.Modifies = append(cur.Modifies, f)
				}
			}
		case "pure":
			cur.Pure = true
		case "inline":
			cur.Inline = true
		case "mode":
			if rest == "bv" {
				cur.Mode = ModeBV
			} else {
				cur.Mode = ModeInt
			}
		case "unroll":
			n, _ := strconv.Atoi(rest)
			cur.Unroll = n
		case "let":
			// let name = E   (an abbreviation usable in every clause of this contract; evaluated where it is used)
			kv := strings.SplitN(rest, "=", 2)
			if len(kv) != 2 || cur == nil {
				return fail(fmt.Errorf("let needs `name = expression` inside a func contract"))
			}
			e, err := parseSpec(strings.TrimSpace(kv[1]))
			if err != nil {
				return fail(err)
			}
			cur.Lets = append(cur.Lets, LetDef{Name: strings.TrimSpace(kv[0]), Expr: e})
		case "uses-global":
			if cur.Options["uses-global"] != "" {
				cur.Options["uses-global"] += ","
			}
			cur.Options["uses-global"] += strings.TrimSpace(rest)
		case "option":
			kv := strings.SplitN(rest, "=", 2)
			if len(kv) == 2 {
				cur.Options[strings.TrimSpace(kv[0])] = strings.TrimSpace(kv[1])
			} else {
				cur.Options[strings.TrimSpace(rest)] = "1"
			}
		case "safety":
			// safety C13 [class,class]
			if len(fs) < 2 {
				return fail(fmt.Errorf("safety needs a property"))
			}
			classes := []string{"*"}
			if len(fs) > 2 {
				classes = strings.Split(strings.Join(fs[2:], ""), ",")
			}
			cur.Safety[fs[1]] = classes
			cur.Props[fs[1]] = true
		case "panics":
			// panics when E
			r := strings.TrimSpace(strings.TrimPrefix(rest, "when"))
			props, label, r := parseLabel(r)
			e, err := parseSpec(r)
			if err != nil {
				return fail(err)
			}
			cur.PanicsWhen = append(cur.PanicsWhen, &Clause{Kind: "panics", Props: props, Label: label, Expr: e, Text: r, Line: ln})
		case "specfn":
			sf, err := parseSpecFn(rest)
			if err != nil {
				return fail(err)
			}
			sf.Pkg = pkgPath
			cs.SpecFns[sf.Name] = sf
		case "axiom":
			_, label, r := parseLabel(rest)
			e, err := parseSpec(r)
			if err != nil {
				return fail(err)
			}
			cs.Axioms = append(cs.Axioms, &Axiom{Name: label, Expr: e, Text: r})
		case "ghost":
			// ghost name *T R : a verifier-only field `name` of type R on every object of type T
			if len(fs) != 4 {
				return fail(fmt.Errorf("ghost needs: name *ObjectType ResultType"))
			}
			cs.Ghosts[fs[1]] = &GhostDef{Name: fs[1], ObjType: fs[2], ResType: fs[3], Pkg: pkgPath}
		case "immutable":
			// immutable [Cxx ...] TypeName field field ...
			props, _, r := parseLabel(rest)
			ff := strings.Fields(r)
			if len(ff) < 2 {
				return fail(fmt.Errorf("immutable needs a type and at least one field"))
			}
			im := &Immutable{Pkg: pkgPath, Type: ff[0], Props: props}
			for _, x := range ff[1:] {
				if strings.HasPrefix(x, "writers=") {
					im.Writers = append(im.Writers, strings.Split(strings.TrimPrefix(x, "writers="), ",")...)
				} else {
					im.Fields = append(im.Fields, x)
				}
			}
			cs.Immutables = append(cs.Immutables, im)
		case "typeinv":
			// typeinv TypeName E
			if len(fs) < 3 {
				return fail(fmt.Errorf("typeinv needs a type and an expression"))
			}
			r := strings.TrimSpace(rest[len(fs[1]):])
			e, err := parseSpec(r)
			if err != nil {
				return fail(err)
			}
			cs.TypeInvs[pkgPath+"::"+fs[1]] = &Clause{Kind: "typeinv", Expr: e, Text: r, Line: ln}
		case "sweep":
			// sweep C15 message.go [exclude=a,b]   (following clauses fill the template)
			if len(fs) < 3 {
				return fail(fmt.Errorf("sweep needs a property and a file"))
			}
			sw := &Sweep{Pkg: pkgPath, Prop: fs[1], File: fs[2], Exclude: map[string]bool{}}
			for _, f := range fs[3:] {
				if strings.HasPrefix(f, "exclude=") {
					for _, x := range strings.Split(strings.TrimPrefix(f, "exclude="), ",") {
						sw.Exclude[x] = true
					}
				}
			}
			cur = &Contract{Pkg: pkgPath, Func: "sweep:" + fs[2], Invariants: map[int][]*Clause{}, LoopMods: map[int][]string{},
				Safety: map[string][]string{fs[1]: {"*"}}, Props: map[string]bool{fs[1]: true}, Options: map[string]string{}, File: path, ModAll: true, Inline: true}
			sw.Template = cur
			cs.Sweeps = append(cs.Sweeps, sw)
		case "lemma":
			props, label, r := parseLabel(rest)
			lm := &Lemma{Name: label, Props: props, Pkg: pkgPath, Text: r}
			if strings.HasPrefix(r, "bv ") {
				lm.Mode = ModeBV
				r = r[3:]
			}
			if strings.HasPrefix(r, "expect-sat ") {
				lm.Expect = "sat"
				r = strings.TrimPrefix(r, "expect-sat ")
			}
			if strings.HasPrefix(r, "smtfile ") {
				// a lemma stated directly in SMT-LIB (e.g. in the theory of strings): the file's query must be unsat
				lm.RawFile = filepath.Join(filepath.Dir(path), strings.TrimSpace(strings.TrimPrefix(r, "smtfile ")))
				cs.Lemmas = append(cs.Lemmas, lm)
				continue
			}
			e, err := parseSpec(r)
			if err != nil {
				return fail(err)
			}
			lm.Expr = e
			cs.Lemmas = append(cs.Lemmas, lm)
			if strings.HasSuffix(label, "-use") || label == "use" {
				// `lemma [Cxx name use] E`: proved as its own obligation AND available as an axiom to every query
				// that mentions its spec functions
				cs.Axioms = append(cs.Axioms, &Axiom{Name: label, Expr: e, Text: r, Proved: true})
			}
		default:
			return fail(fmt.Errorf("unknown clause keyword %q", kw))
		}
	}
	return nil
}

// specfn name(a T, b T) R = body
var specFnRe = regexp.MustCompile(`^(rec\s+|opaque\s+|abstract\s+|macro\s+)?(\w+)\s*\(([^)]*)\)\s*([\w\[\]\.\*]+)\s*(=\s*(.*))?$`)

func parseSpecFn(s string) (*SpecFn, error) {
	m := specFnRe.FindStringSubmatch(s)
	if m == nil {
		return nil, fmt.Errorf("bad specfn %q", s)
	}
	sf := &SpecFn{Name: m[2], Ret: m[4], Rec: strings.HasPrefix(m[1], "rec"), Opaque: strings.HasPrefix(m[1], "opaque") || strings.HasPrefix(m[1], "abstract"),
		Abstract: strings.HasPrefix(m[1], "abstract"), Macro: strings.HasPrefix(m[1], "macro")}
	if strings.TrimSpace(m[3]) != "" {
		var pending []string
		for _, p := range strings.Split(m[3], ",") {
			f := strings.Fields(p)
			if len(f) == 1 {
				pending = append(pending, f[0])
				continue
			}
			if len(f) != 2 {
				return nil, fmt.Errorf("bad param %q", p)
			}
			for _, n := range pending {
				sf.Params = append(sf.Params, SVar{n, f[1]})
			}
			pending = nil
			sf.Params = append(sf.Params, SVar{f[0], f[1]})
		}
		if len(pending) > 0 {
			return nil, fmt.Errorf("param without type in %q", s)
		}
	}
	if m[6] != "" {
		e, err := parseSpec(m[6])
		if err != nil {
			return nil, err
		}
		sf.Body = e
	}
	return sf, nil
}

func newContractSet() *ContractSet {
	return &ContractSet{Funcs: map[string]*Contract{}, SpecFns: map[string]*SpecFn{}, TypeInvs: map[string]*Clause{}, Ghosts: map[string]*GhostDef{}}
}
