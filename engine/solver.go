package main

import (
	"bytes"
	"context"
	"fmt"
	"os"
	"os/exec"
	"path/filepath"
	"strings"
	"sync"
	"time"
)

type solverSpec struct {
	name string
	args func(file string, timeoutS int) []string
}

var solvers = []solverSpec{
	{"z3-5.1", func(f string, t int) []string { return []string{"z3-new", "-smt2", fmt.Sprintf("-T:%d", t), f} }},
	{"cvc5-1.0", func(f string, t int) []string {
		return []string{"cvc5", fmt.Sprintf("--tlimit=%d", t*1000), "--lang=smt2", f}
	}},
	{"z3-4.8", func(f string, t int) []string { return []string{"z3", "-smt2", fmt.Sprintf("-T:%d", t), f} }},
	// the same solver with relevancy propagation off: several times faster on the large straight-line queries of the
	// connection-setup proofs (many appends), slower elsewhere — one more runner in the race
	{"z3-5.1-r0", func(f string, t int) []string {
		return []string{"z3-new", "-smt2", fmt.Sprintf("-T:%d", t), "smt.relevancy=0", f}
	}},
	// enumerative instantiation: decides bit-vector goals with a quantified hypothesis (loop invariants over byte
	// ranges in `mode bv`) on which E-matching in all of the above gives up
	{"cvc5-1.0-enum", func(f string, t int) []string {
		return []string{"cvc5", fmt.Sprintf("--tlimit=%d", t*1000), "--lang=smt2", "--enum-inst", f}
	}},
}

type solveResult struct {
	status string
	solver string
	ms     int64
	out    string
	all    map[string]string // solver -> status (thorough)
}

func runOne(ctx context.Context, sp solverSpec, file string, timeoutS int) (string, string, int64) {
	start := time.Now()
	args := sp.args(file, timeoutS)
	cctx, cancel := context.WithTimeout(ctx, time.Duration(timeoutS+2)*time.Second)
	defer cancel()
	cmd := exec.CommandContext(cctx, args[0], args[1:]...)
	var out bytes.Buffer
	cmd.Stdout = &out
	cmd.Stderr = &out
	_ = cmd.Run()
	ms := time.Since(start).Milliseconds()
	text := out.String()
	first := ""
	for _, ln := range strings.Split(text, "\n") {
		ln = strings.TrimSpace(ln)
		if ln == "" {
			continue
		}
		first = ln
		break
	}
	switch first {
	case "sat", "unsat", "unknown":
		return first, text, ms
	case "timeout":
		return "timeout", text, ms
	}
	if cctx.Err() != nil {
		return "timeout", text, ms
	}
	if strings.Contains(text, "timeout") || strings.Contains(text, "interrupted") {
		return "timeout", text, ms
	}
	return "error", text, ms
}

// solve races the solvers on one query. In `all` mode every solver runs to completion and answers are cross-checked.
func solve(query string, tmpdir, name string, timeoutS int, all bool) solveResult {
	file := filepath.Join(tmpdir, name+".smt2")
	if err := os.WriteFile(file, []byte(query), 0o644); err != nil {
		return solveResult{status: "error", out: err.Error()}
	}
	if !all {
		// fast path: z3-new alone with a short budget
		quick := 3
		if timeoutS < quick {
			quick = timeoutS
		}
		st, out, ms := runOne(context.Background(), solvers[0], file, quick)
		if st == "sat" || st == "unsat" {
			return solveResult{status: st, solver: solvers[0].name, ms: ms, out: out}
		}
	}
	ctx, cancel := context.WithCancel(context.Background())
	defer cancel()
	type r struct {
		st, out, name string
		ms            int64
	}
	ch := make(chan r, len(solvers))
	var wg sync.WaitGroup
	cvc5File := file
	if q2, changed := cvc5Compat(query); changed {
		cvc5File = filepath.Join(tmpdir, name+".cvc5.smt2")
		if err := os.WriteFile(cvc5File, []byte(q2), 0o644); err != nil {
			cvc5File = file
		}
	}
	for _, sp := range solvers {
		wg.Add(1)
		go func(sp solverSpec) {
			defer wg.Done()
			file := file
			if strings.HasPrefix(sp.name, "cvc5") {
				file = cvc5File
			}
			st, out, ms := runOne(ctx, sp, file, timeoutS)
			ch <- r{st, out, sp.name, ms}
		}(sp)
	}
	go func() { wg.Wait(); close(ch) }()
	res := solveResult{status: "unknown", all: map[string]string{}}
	var firstDef *r
	agree := 0
	for x := range ch {
		x := x
		res.all[x.name] = x.st
		if x.st == "sat" || x.st == "unsat" {
			if firstDef == nil {
				firstDef = &x
				if !all {
					cancel()
				}
			} else if firstDef.st != x.st && all {
				res.status = "disagree"
				res.out = fmt.Sprintf("%s says %s, %s says %s", firstDef.name, firstDef.st, x.name, x.st)
				return res
			} else if all {
				// two independent runners agree: the cross-check has its answer; the slower configurations (which on
				// bit-vector goals mostly run into their timeout) are not waited for
				agree++
				if agree >= 1 {
					cancel()
				}
			}
		} else if firstDef == nil {
			res.out += fmt.Sprintf("[%s: %s] %s\n", x.name, x.st, firstLines(x.out, 3))
			if x.st == "timeout" && res.status != "timeout" {
				res.status = "timeout"
			}
		}
	}
	if firstDef != nil {
		res.status, res.solver, res.ms, res.out = firstDef.st, firstDef.name, firstDef.ms, firstDef.out
	} else {
		allErr := len(res.all) > 0
		for _, st := range res.all {
			if st != "error" {
				allErr = false
			}
		}
		if allErr {
			res.status = "error" // ill-formed query: a translator fault, never a verdict
		}
	}
	return res
}

func firstLines(s string, n int) string {
	ls := strings.Split(strings.TrimSpace(s), "\n")
	if len(ls) > n {
		ls = ls[:n]
	}
	return strings.Join(ls, " | ")
}

// parseGetValue parses "((t1 v1) (t2 v2) ...)" output following "sat".
func parseGetValue(out string, vars []ModelVar) map[string]string {
	i := strings.Index(out, "((")
	if i < 0 {
		return nil
	}
	s := out[i:]
	// tokenise s-expressions at depth 2
	m := map[string]string{}
	depth := 0
	start := -1
	var pairs []string
	for j := 0; j < len(s); j++ {
		switch s[j] {
		case '(':
			depth++
			if depth == 2 {
				start = j
			}
		case ')':
			if depth == 2 && start >= 0 {
				pairs = append(pairs, s[start+1:j])
				start = -1
			}
			depth--
			if depth == 0 {
				j = len(s)
			}
		}
	}
	for k, p := range pairs {
		if k >= len(vars) {
			break
		}
		// value is the last balanced term of p
		v := lastTerm(p)
		m[vars[k].Name] = normValue(v)
	}
	return m
}

func lastTerm(p string) string {
	p = strings.TrimSpace(p)
	if strings.HasSuffix(p, ")") {
		depth := 0
		for j := len(p) - 1; j >= 0; j-- {
			if p[j] == ')' {
				depth++
			} else if p[j] == '(' {
				depth--
				if depth == 0 {
					return p[j:]
				}
			}
		}
	}
	j := strings.LastIndexAny(p, " \t\n")
	return p[j+1:]
}

func normValue(v string) string {
	v = strings.TrimSpace(v)
	if strings.HasPrefix(v, "(- ") {
		return "-" + strings.TrimSuffix(strings.TrimPrefix(v, "(- "), ")")
	}
	if strings.HasPrefix(v, "#x") {
		var n uint64
		fmt.Sscanf(v[2:], "%x", &n)
		return fmt.Sprint(n)
	}
	if strings.HasPrefix(v, "#b") {
		var n uint64
		for _, ch := range v[2:] {
			n = n<<1 | uint64(ch-'0')
		}
		return fmt.Sprint(n)
	}
	return v
}
