package main

import "strings"

// splitModRange recognises a modifies item of the form  x[lo:hi]  (x a slice designator).
func splitModRange(item string) (base, lo, hi string, ok bool) {
	if !strings.HasSuffix(item, "]") || strings.HasSuffix(item, "[*]") {
		return "", "", "", false
	}
	depth := 0
	open := -1
	for i := len(item) - 1; i >= 0; i-- {
		switch item[i] {
		case ']':
			depth++
		case '[':
			depth--
			if depth == 0 {
				open = i
			}
		}
		if open >= 0 {
			break
		}
	}
	if open < 0 {
		return "", "", "", false
	}
	inner := item[open+1 : len(item)-1]
	// split at the top-level colon
	d := 0
	for i := 0; i < len(inner); i++ {
		switch inner[i] {
		case '(', '[':
			d++
		case ')', ']':
			d--
		case ':':
			if d == 0 {
				return item[:open], strings.TrimSpace(inner[:i]), strings.TrimSpace(inner[i+1:]), true
			}
		}
	}
	return "", "", "", false
}
