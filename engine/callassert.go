package main

// Call-site assertions: `//@ assert [Cxx label] at CALLEE: E` in the contract of a function is an assert statement
// placed immediately before every call of CALLEE in that function's body. E is evaluated in the caller's state at the
// call, with arg0, arg1, ... bound to the actual arguments (the receiver, if any, is arg0). This is how a contract
// pins down WHAT a function sends to a callee whose own effects are outside the verified code (a script execution,
// a hook, a network write). An assertion whose callee is never called is an engine fault (vacuity guard).

import (
	"fmt"
	"go/types"
	"regexp"
	"sort"
	"strconv"
	"strings"

	"golang.org/x/tools/go/ssa"
)

func assertMatches(at string, cc *ssa.CallCommon, callee *ssa.Function) bool {
	var names []string
	if callee != nil {
		names = append(names, callee.Name())
		full := fullName(callee)
		names = append(names, full, shortFn(full))
		if i := strings.LastIndex(full, "/"); i >= 0 {
			names = append(names, full[i+1:])
		}
	} else if cc.IsInvoke() {
		names = append(names, cc.Method.Name(), cc.Method.FullName())
	} else if dn := dynCallName(cc); dn != "" {
		names = append(names, dn)
	} else if b, ok := cc.Value.(*ssa.Builtin); ok {
		names = append(names, b.Name())
	}
	for _, n := range names {
		n = stripTypeArgs(n)
		if n == at || strings.HasSuffix(n, "."+at) || strings.HasSuffix(n, ")."+at) {
			return true
		}
	}
	return false
}

// stripTypeArgs: `Load[github.com/x.T]` -> `Load` (instances of generic functions are referred to by the generic's name).
func stripTypeArgs(n string) string {
	if i := strings.Index(n, "["); i > 0 && strings.HasSuffix(n, "]") {
		return n[:i]
	}
	return n
}

func (f *Frame) callAsserts(cur *blockCur, in ssa.Instruction, cc *ssa.CallCommon, callee *ssa.Function, args []Val) {
	if f.con == nil || f.callerFrame != nil || len(f.con.Asserts) == 0 {
		return
	}
	for _, cl := range f.con.Asserts {
		at, ord := cl.At, 0
		if i := strings.LastIndex(at, "#"); i > 0 {
			// `at NAME#k`: only the k-th call of NAME in source order
			fmt.Sscanf(at[i+1:], "%d", &ord)
			at = at[:i]
		}
		if !assertMatches(at, cc, callee) {
			continue
		}
		if ord > 0 && f.callOrdinal(at, in) != ord {
			continue
		}
		if f.c.assertHit == nil {
			f.c.assertHit = map[*Clause]int{}
		}
		f.c.assertHit[cl]++
		env := f.specEnv(cur.b, cur.st, nil)
		env.atEnd = true // locals by their latest value at this point of the block
		for i, a := range args {
			env.names[fmt.Sprintf("arg%d", i)] = a
		}
		f.relaxedLocals = true // call-site assertions may name variables declared in blocks that do not dominate the call
		t, err := env.evalBool(cl.Expr)
		f.relaxedLocals = false
		if err != nil {
			panic(unsupportedErr{fmt.Sprintf("assert at %s %q: %v", cl.At, cl.Text, err)})
		}
		name := clauseLabel(cl)
		if n := f.c.assertHit[cl]; n > 1 {
			name = fmt.Sprintf("%s@%d", name, n)
		}
		f.c.addObligation(&Obligation{Name: f.oblName("assert", name), Class: "assert", Props: f.clauseProps(cl), Guard: cur.reach, Goal: t,
			Pos: f.c.eng.posString(in.Pos()), Src: "at " + cl.At + ": " + cl.Text})
	}
}

// unmatchedAsserts: assertions whose callee is never called in the body (they would be vacuously true).
func (f *Frame) unmatchedAsserts() error {
	if f.con == nil {
		return nil
	}
	for _, cl := range f.con.Asserts {
		if f.c.assertHit[cl] == 0 {
			return fmt.Errorf("assert %s: the body of %s never calls %q (or has no such call site)", clauseLabel(cl), fnDisplayName(f.fn), cl.At)
		}
	}
	// a where-defined postcondition that applies at no return at all would be vacuously true as well
	for _, cl := range f.con.Ensures {
		if strings.Contains(cl.Label, "where-defined") && f.c.whereDefinedHit[cl] == 0 {
			return fmt.Errorf("ensures %s: applies at no return of %s (a local or call it mentions does not exist)", clauseLabel(cl), fnDisplayName(f.fn))
		}
	}
	return nil
}

// dynCallName: the source-level name a dynamic call goes through — the function-typed struct field it was loaded from
// (`s.next(...)` -> "next"), the function-typed parameter (`yield(...)` -> "yield") or the captured variable
// holding it (`(*yield)(...)` in a range-over-func body -> "yield"). "" when the callee value has no such name.
func dynCallName(cc *ssa.CallCommon) string {
	if cc.IsInvoke() || cc.StaticCallee() != nil {
		return ""
	}
	switch v := cc.Value.(type) {
	case *ssa.Parameter:
		return v.Name()
	case *ssa.UnOp:
		switch x := v.X.(type) {
		case *ssa.FieldAddr:
			if pt, ok := x.X.Type().Underlying().(*types.Pointer); ok {
				if st, ok := pt.Elem().Underlying().(*types.Struct); ok && x.Field < st.NumFields() {
					return st.Field(x.Field).Name()
				}
			}
		case *ssa.FreeVar:
			return x.Name()
		case *ssa.Alloc:
			return x.Comment
		}
	case *ssa.Field:
		if st, ok := v.X.Type().Underlying().(*types.Struct); ok && v.Field < st.NumFields() {
			return st.Field(v.Field).Name()
		}
	}
	// a local variable holding the function value (`fn := table[k]; fn(x)`): the name the source gives it
	if refs := cc.Value.Referrers(); refs != nil {
		for _, r := range *refs {
			if dr, ok := r.(*ssa.DebugRef); ok && !dr.IsAddr {
				if o, ok := dr.Object().(*types.Var); ok && !o.IsField() && o.Parent() != nil && o.Parent() != o.Pkg().Scope() {
					return o.Name()
				}
			}
		}
	}
	return ""
}

var callsRe = regexp.MustCompile(`\bcalls\(\s*([A-Za-z_][A-Za-z0-9_.$]*)\s*(?:,\s*([0-9]+)\s*)?\)`)

// trackedCalls: the names N for which the contract of the function under verification mentions calls(N).
func (c *FuncCtx) trackedCalls() []string {
	if c.tracked != nil || c.rootCon == nil {
		return c.tracked
	}
	c.tracked = []string{}
	seen := map[string]bool{}
	add := func(text string) {
		for _, m := range callsRe.FindAllStringSubmatch(text, -1) {
			n := m[1]
			if m[2] != "" {
				n += "#" + m[2] // calls(NAME, k): the k-th call site of NAME in source order
			}
			if !seen[n] {
				seen[n] = true
				c.tracked = append(c.tracked, n)
			}
		}
	}
	con := c.rootCon
	for _, cl := range con.Requires {
		add(cl.Text)
	}
	for _, cl := range con.Ensures {
		add(cl.Text)
	}
	for _, cl := range con.Asserts {
		add(cl.Text)
	}
	for _, cls := range con.Invariants {
		for _, cl := range cls {
			add(cl.Text)
		}
	}
	return c.tracked
}

func callsKey(name string) HeapKey { return HeapKey{Name: "G_calls_" + sanitize(name), Sort: "Int"} }

// countCall: after the call-site assertions of a call have been evaluated, every tracked name the call matches has
// its ghost counter incremented (calls(N) in an assertion at N is therefore the number of EARLIER calls of N).
func (f *Frame) countCall(cur *blockCur, in ssa.Instruction, cc *ssa.CallCommon, callee *ssa.Function) {
	if f.callerFrame != nil {
		return
	}
	for _, n := range f.c.trackedCalls() {
		if f.trackedMatches(n, in, cc, callee) {
			k := callsKey(n)
			cur.st = cur.st.set(k, fmt.Sprintf("(+ %s 1)", cur.st.get(k)))
		}
	}
}

// trackedMatches: does call instruction `in` count for the tracked name n (NAME or NAME#k)?
func (f *Frame) trackedMatches(n string, in ssa.Instruction, cc *ssa.CallCommon, callee *ssa.Function) bool {
	if i := strings.LastIndex(n, "#"); i > 0 {
		k, err := strconv.Atoi(n[i+1:])
		if err != nil || !assertMatches(n[:i], cc, callee) {
			return false
		}
		return f.callOrdinal(n[:i], in) == k
	}
	return assertMatches(n, cc, callee)
}

// callOrdinal: the 1-based position of call instruction `in` among the calls of NAME in the function, by source position.
func (f *Frame) callOrdinal(name string, in ssa.Instruction) int {
	var sites []ssa.Instruction
	for _, b := range f.fn.Blocks {
		for _, x := range b.Instrs {
			ci, ok := x.(ssa.CallInstruction)
			if ok && assertMatches(name, ci.Common(), ci.Common().StaticCallee()) {
				sites = append(sites, x)
			}
		}
	}
	sort.SliceStable(sites, func(i, j int) bool { return sites[i].Pos() < sites[j].Pos() })
	for i, x := range sites {
		if x == in {
			return i + 1
		}
	}
	return 0
}
