package main

// Call-site assertions: `//@ assert [Cxx label] at CALLEE: E` in the contract of a function is an assert statement
// placed immediately before every call of CALLEE in that function's body. E is evaluated in the caller's state at the
// call, with arg0, arg1, ... bound to the actual arguments (the receiver, if any, is arg0). This is how a contract
// pins down WHAT a function sends to a callee whose own effects are outside the verified code (a script execution,
// a hook, a network write). An assertion whose callee is never called is an engine fault (vacuity guard).

import (
	"fmt"
	"strings"

	"golang.org/x/tools/go/ssa"
)

func assertMatches(at string, cc *ssa.CallCommon, callee *ssa.Function) bool {
	var names []string
	if callee != nil {
		names = append(names, callee.Name())
		full := fullName(callee)
		names = append(names, full, shortFn(full))
		if i := strings.LastIndex(full, "/"); i >= 0 {
			names = append(names, full[i+1:])
		}
	} else if cc.IsInvoke() {
		names = append(names, cc.Method.Name(), cc.Method.FullName())
	}
	for _, n := range names {
		if n == at || strings.HasSuffix(n, "."+at) || strings.HasSuffix(n, ")."+at) {
			return true
		}
	}
	return false
}

func (f *Frame) callAsserts(cur *blockCur, in ssa.Instruction, cc *ssa.CallCommon, callee *ssa.Function, args []Val) {
	if f.con == nil || f.callerFrame != nil || len(f.con.Asserts) == 0 {
		return
	}
	for _, cl := range f.con.Asserts {
		if !assertMatches(cl.At, cc, callee) {
			continue
		}
		if f.c.assertHit == nil {
			f.c.assertHit = map[*Clause]int{}
		}
		f.c.assertHit[cl]++
		env := f.specEnv(cur.b, cur.st, nil)
		env.atEnd = true // locals by their latest value at this point of the block
		for i, a := range args {
			env.names[fmt.Sprintf("arg%d", i)] = a
		}
		f.relaxedLocals = true // call-site assertions may name variables declared in blocks that do not dominate the call
		t, err := env.evalBool(cl.Expr)
		f.relaxedLocals = false
		if err != nil {
			panic(unsupportedErr{fmt.Sprintf("assert at %s %q: %v", cl.At, cl.Text, err)})
		}
		name := clauseLabel(cl)
		if n := f.c.assertHit[cl]; n > 1 {
			name = fmt.Sprintf("%s@%d", name, n)
		}
		f.c.addObligation(&Obligation{Name: f.oblName("assert", name), Class: "assert", Props: f.clauseProps(cl), Guard: cur.reach, Goal: t,
			Pos: f.c.eng.posString(in.Pos()), Src: "at " + cl.At + ": " + cl.Text})
	}
}

// unmatchedAsserts: assertions whose callee is never called in the body (they would be vacuously true).
func (f *Frame) unmatchedAsserts() error {
	if f.con == nil {
		return nil
	}
	for _, cl := range f.con.Asserts {
		if f.c.assertHit[cl] == 0 {
			return fmt.Errorf("assert %s: the body of %s never calls %q", clauseLabel(cl), fnDisplayName(f.fn), cl.At)
		}
	}
	return nil
}
