package main

// cvc5 1.0 accepts `((as const (Array I E)) v)` only when v is a value; the translation uses the uninterpreted
// constants str_empty / flt_zero as zero values of strings and floats. For cvc5 the constant array is replaced by a
// declared array constant with the (equivalent) quantified definition `forall i. select(c, i) = v`.

import (
	"fmt"
	"regexp"
	"strings"
)

var constArrRe = regexp.MustCompile(`\(\(as const (\(Array (?:Int|\(_ BitVec 64\)) (?:Str|Flt)\))\) (str_empty|flt_zero)\)`)

func cvc5Compat(query string) (string, bool) {
	if !strings.Contains(query, "(as const") || !constArrRe.MatchString(query) {
		return query, false
	}
	lines := strings.Split(query, "\n")
	declared := map[string]bool{}
	var out []string
	for _, ln := range lines {
		ms := constArrRe.FindAllStringSubmatch(ln, -1)
		for _, m := range ms {
			name := "carr_" + m[2]
			if strings.Contains(m[1], "BitVec") {
				name += "_bv"
			}
			if !declared[name] {
				declared[name] = true
				idx := "Int"
				if strings.Contains(m[1], "BitVec") {
					idx = "(_ BitVec 64)"
				}
				out = append(out, fmt.Sprintf("(declare-fun %s () %s)", name, m[1]))
				out = append(out, fmt.Sprintf("(assert (forall ((i!c %s)) (! (= (select %s i!c) %s) :pattern ((select %s i!c)))))", idx, name, m[2], name))
			}
		}
		if len(ms) > 0 {
			ln = constArrRe.ReplaceAllStringFunc(ln, func(s string) string {
				m := constArrRe.FindStringSubmatch(s)
				name := "carr_" + m[2]
				if strings.Contains(m[1], "BitVec") {
					name += "_bv"
				}
				return name
			})
		}
		out = append(out, ln)
	}
	return strings.Join(out, "\n"), true
}
