package main

import "strings"

// opaqueRecVariant returns the query with every recursive spec function that the goal itself does not mention turned
// into an uninterpreted function (declare-fun instead of define-fun-rec). The variant has fewer assumptions, so unsat
// there is unsat for the real query; anything else says nothing. With all=true every recursive spec function is left
// uninterpreted (goals that follow by congruence alone, e.g. f(a) == f(b) from a == b). It exists because z3 keeps unfolding a
// define-fun-rec that occurs only in an irrelevant hypothesis (e.g. a sibling loop invariant) and never answers.
func opaqueRecVariant(query, goal string, all bool) (string, bool) {
	lines := strings.Split(query, "\n")
	changed := false
	for i, l := range lines {
		if !strings.HasPrefix(l, "(define-fun-rec ") {
			continue
		}
		rest := l[len("(define-fun-rec "):]
		sp := strings.IndexByte(rest, ' ')
		if sp < 0 {
			continue
		}
		name := rest[:sp]
		if !all && strings.Contains(goal, name) {
			continue
		}
		// parameter list: balanced s-expression after the name
		p := sp + 1
		if p >= len(rest) || rest[p] != '(' {
			continue
		}
		end := matchParen(rest, p)
		if end < 0 {
			continue
		}
		params := rest[p+1 : end]
		// return sort: next s-expression or atom
		q := end + 1
		for q < len(rest) && rest[q] == ' ' {
			q++
		}
		var ret string
		if q < len(rest) && rest[q] == '(' {
			e2 := matchParen(rest, q)
			if e2 < 0 {
				continue
			}
			ret = rest[q : e2+1]
		} else {
			e2 := strings.IndexByte(rest[q:], ' ')
			if e2 < 0 {
				continue
			}
			ret = rest[q : q+e2]
		}
		// sorts of the parameters: each parameter is "(name SORT)"
		var sorts []string
		for j := 0; j < len(params); {
			if params[j] != '(' {
				j++
				continue
			}
			e := matchParen(params, j)
			if e < 0 {
				break
			}
			inner := params[j+1 : e]
			k := strings.IndexByte(inner, ' ')
			if k >= 0 {
				sorts = append(sorts, strings.TrimSpace(inner[k+1:]))
			}
			j = e + 1
		}
		lines[i] = "(declare-fun " + name + " (" + strings.Join(sorts, " ") + ") " + ret + ")"
		changed = true
	}
	if !changed {
		return query, false
	}
	return strings.Join(lines, "\n"), true
}

func matchParen(s string, open int) int {
	depth := 0
	for i := open; i < len(s); i++ {
		switch s[i] {
		case '(':
			depth++
		case ')':
			depth--
			if depth == 0 {
				return i
			}
		}
	}
	return -1
}
