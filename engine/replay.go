package main

// Replay of solver counterexamples on the real code.
//
// For a failed obligation with a model, the function inputs are rebuilt as Go values from the model (regIn lists the
// terms that are read back; goValue turns them into Go source), an in-package test is generated that calls the real
// function under recover() and — for postconditions — evaluates the violated clause compiled to Go, and the test is
// run with `go test -overlay` (nothing is written into the repository). The violation is reported as reproduced only
// if the real code panics (safety classes) or the compiled clause is false (postconditions).

import (
	"encoding/json"
	"fmt"
	"go/types"
	"os"
	"os/exec"
	"path/filepath"
	"sort"
	"strconv"
	"strings"
	"time"

	"golang.org/x/tools/go/ssa"
)

const replayElems = 4 // slice elements read back from a model
const replayStr = 24  // string bytes read back from a model

// regIn registers the model terms describing one input value (recursively, bounded).
func (c *FuncCtx) regIn(name string, v Val, st *State, depth int) {
	if depth > 3 || v.Tup != nil || v.T == nil {
		return
	}
	add := func(n, term, kind string) { c.inputs = append(c.inputs, ModelVar{Name: n, Term: term, Kind: kind}) }
	switch u := v.T.Underlying().(type) {
	case *types.Basic:
		switch {
		case isString(v.T):
			add(name, fmt.Sprintf("(slen %s)", v.S), "strlen")
			for i := 0; i < replayStr; i++ {
				add(fmt.Sprintf("%s[%d]", name, i), fmt.Sprintf("(sat %s %s)", v.S, c.so.idxLit(int64(i))), "strbyte")
			}
		case isBool(v.T):
			add(name, v.S, "bool")
		default:
			if _, _, ok := intInfo(v.T); ok {
				add(name, v.S, "int")
			}
		}
	case *types.Slice:
		add("len("+name+")", fmt.Sprintf("(s_len %s)", v.S), "int")
		if st == nil || c.mode != ModeInt {
			return
		}
		h := st.get(c.so.heapArr(u.Elem()))
		n := replayElems
		if isByteSlice(v.T) {
			n = replayStr
		}
		for i := 0; i < n; i++ {
			el := fmt.Sprintf("(select (select %s (s_ref %s)) (+ (s_off %s) %d))", h, v.S, v.S, i)
			c.regIn(fmt.Sprintf("%s[%d]", name, i), Val{T: u.Elem(), S: el}, st, depth+1)
		}
	case *types.Struct:
		sn := c.so.structSort(v.T, u)
		for i := 0; i < u.NumFields(); i++ {
			f := u.Field(i)
			if f.Name() == "_" {
				continue
			}
			c.regIn(name+"."+f.Name(), Val{T: f.Type(), S: fmt.Sprintf("(%s %s)", c.so.fieldSel(sn, u, i), v.S)}, st, depth+1)
		}
	case *types.Pointer:
		add(name, c.termOf(v), "ptr")
		if st == nil {
			return
		}
		if stt, ok := u.Elem().Underlying().(*types.Struct); ok && depth < 2 {
			p := c.ptrOf(v)
			if len(p.Path) > 0 {
				return
			}
			for i := 0; i < stt.NumFields(); i++ {
				f := stt.Field(i)
				if f.Name() == "_" {
					continue
				}
				fp := &Ptr{Root: p.Root, Obj: p.Obj, Path: []PathEl{{Field: i, T: f.Type()}}}
				c.regIn(name+"."+f.Name(), Val{T: f.Type(), S: c.load(st, fp, f.Type())}, st, depth+1)
			}
		}
	}
}

// ---------------------------------------------------------------------------

type goBuilder struct {
	model   map[string]string
	pkg     *types.Package
	imports map[string]bool
	notes   []string
}

func (g *goBuilder) qual(p *types.Package) string {
	if p == g.pkg {
		return ""
	}
	g.imports[p.Path()] = true
	return p.Name()
}

func (g *goBuilder) typeStr(t types.Type) string { return types.TypeString(t, g.qual) }

func (g *goBuilder) intOf(path string) (int64, bool) {
	v, ok := g.model[path]
	if !ok {
		return 0, false
	}
	n, err := strconv.ParseInt(v, 10, 64)
	if err != nil {
		u, err2 := strconv.ParseUint(v, 10, 64)
		if err2 != nil {
			return 0, false
		}
		return int64(u), true
	}
	return n, true
}

func (g *goBuilder) strOf(path string) string {
	n, _ := g.intOf(path)
	if n < 0 {
		n = 0
	}
	if n > 4096 {
		g.notes = append(g.notes, fmt.Sprintf("%s: length %d in the model cut to 4096", path, n))
		n = 4096
	}
	bs := make([]byte, n)
	for i := range bs {
		bs[i] = 'a'
		if i < replayStr {
			if b, ok := g.intOf(fmt.Sprintf("%s[%d]", path, i)); ok {
				bs[i] = byte(b)
			}
		}
	}
	return string(bs)
}

// goValue returns Go source constructing the value at `path` of type t.
func (g *goBuilder) goValue(t types.Type, path string, depth int) string {
	if depth > 4 {
		return "*new(" + g.typeStr(t) + ")"
	}
	switch u := t.Underlying().(type) {
	case *types.Basic:
		switch {
		case isString(t):
			return g.typeConv(t, strconv.Quote(g.strOf(path)))
		case isBool(t):
			return g.typeConv(t, fmt.Sprint(g.model[path] == "true"))
		default:
			if _, _, ok := intInfo(t); ok {
				v := g.model[path]
				if v == "" {
					v = "0"
				}
				return g.typeConv(t, v)
			}
		}
	case *types.Slice:
		n, ok := g.intOf("len(" + path + ")")
		if !ok || n <= 0 {
			if ok && n == 0 {
				return g.typeStr(t) + "{}"
			}
			return "nil"
		}
		if isByteSlice(t) {
			// bytes are registered as elements path[i]
			if n > 4096 {
				n = 4096
			}
			bs := make([]byte, n)
			for i := range bs {
				if b, ok := g.intOf(fmt.Sprintf("%s[%d]", path, i)); ok {
					bs[i] = byte(b)
				}
			}
			return "[]byte(" + strconv.Quote(string(bs)) + ")"
		}
		if n > 64 {
			g.notes = append(g.notes, fmt.Sprintf("len(%s) = %d in the model cut to 64", path, n))
			n = 64
		}
		var els []string
		for i := int64(0); i < n; i++ {
			p := fmt.Sprintf("%s[%d]", path, i)
			if i >= replayElems {
				p = fmt.Sprintf("%s[%d]", path, replayElems-1) // beyond what was read back: repeat the last known element
			}
			els = append(els, g.goValue(u.Elem(), p, depth+1))
		}
		return g.typeStr(t) + "{" + strings.Join(els, ", ") + "}"
	case *types.Struct:
		if n, ok := t.(*types.Named); ok && n.Obj().Name() == "RedisMessage" {
			return g.redisMessage(path, depth)
		}
		var fs []string
		for i := 0; i < u.NumFields(); i++ {
			f := u.Field(i)
			if f.Name() == "_" {
				continue
			}
			if !f.Exported() && f.Pkg() != g.pkg {
				continue
			}
			switch f.Type().Underlying().(type) {
			case *types.Basic, *types.Slice, *types.Struct, *types.Pointer:
				fs = append(fs, f.Name()+": "+g.goValue(f.Type(), path+"."+f.Name(), depth+1))
			}
		}
		return g.typeStr(t) + "{" + strings.Join(fs, ", ") + "}"
	case *types.Pointer:
		if v, ok := g.model[path]; ok && v == "0" {
			return "nil"
		}
		if _, ok := u.Elem().Underlying().(*types.Struct); ok {
			inner := g.goValue(u.Elem(), path, depth+1)
			if strings.HasPrefix(inner, "*new(") {
				return "new(" + g.typeStr(u.Elem()) + ")"
			}
			return fmt.Sprintf("func() *%s { v := %s; return &v }()", g.typeStr(u.Elem()), inner)
		}
		return "new(" + g.typeStr(u.Elem()) + ")"
	}
	return "*new(" + g.typeStr(t) + ")"
}

func (g *goBuilder) typeConv(t types.Type, lit string) string {
	if _, named := t.(*types.Named); named {
		return g.typeStr(t) + "(" + lit + ")"
	}
	if b, ok := t.(*types.Basic); ok && (b.Kind() == types.Int || b.Kind() == types.String || b.Kind() == types.Bool) {
		return lit
	}
	return g.typeStr(t) + "(" + lit + ")"
}

// redisMessage builds a RedisMessage value: scalar fields from the model; payload pointers are rebuilt as
// non-nil/nil only (their contents are not read back), which is enough for shape-dependent panics.
func (g *goBuilder) redisMessage(path string, depth int) string {
	typ, _ := g.intOf(path + ".typ")
	intlen, _ := g.intOf(path + ".intlen")
	bytesNonNil := g.model[path+".bytes"] != "" && g.model[path+".bytes"] != "0"
	arrNonNil := g.model[path+".array"] != "" && g.model[path+".array"] != "0"
	if arrNonNil {
		n := intlen
		if n < 0 {
			n = 0
		}
		if n > 16 {
			n = 16
		}
		return fmt.Sprintf("func() RedisMessage { m := slicemsg(%d, make([]RedisMessage, %d)); m.intlen = %d; return m }()", typ, n, intlen)
	}
	if bytesNonNil {
		n := intlen
		if n < 0 {
			n = 0
		}
		if n > 64 {
			n = 64
		}
		return fmt.Sprintf("func() RedisMessage { m := strmsg(%d, %s); m.intlen = %d; return m }()", typ, strconv.Quote(strings.Repeat("a", int(n))), intlen)
	}
	return fmt.Sprintf("RedisMessage{typ: %d, intlen: %d}", typ, intlen)
}

// ---------------------------------------------------------------------------
// spec clause -> Go expression

type goClause struct {
	g       *goBuilder
	fn      *ssa.Function
	resN    int
	unsupported string
	qn      int
}

func (gc *goClause) expr(x SpecExpr) string {
	switch x := x.(type) {
	case *SInt:
		return x.V
	case *SBool:
		return fmt.Sprint(x.V)
	case *SStr:
		return strconv.Quote(x.V)
	case *SNil:
		return "nil"
	case *SIdent:
		switch {
		case x.Name == "result":
			return "r0"
		case strings.HasPrefix(x.Name, "result") && len(x.Name) == 7:
			return "r" + x.Name[6:]
		}
		rs := gc.fn.Signature.Results()
		for i := 0; i < rs.Len(); i++ {
			if rs.At(i).Name() == x.Name && x.Name != "" {
				return fmt.Sprintf("r%d", i)
			}
		}
		return x.Name
	case *SUnary:
		return "(" + x.Op + gc.expr(x.X) + ")"
	case *SBinary:
		a, b := gc.expr(x.X), gc.expr(x.Y)
		switch x.Op {
		case "==>":
			return "(!(" + a + ") || (" + b + "))"
		case "<==>":
			return "((" + a + ") == (" + b + "))"
		}
		return "(" + a + " " + x.Op + " " + b + ")"
	case *SSelector:
		return gc.expr(x.X) + "." + x.Sel
	case *SIndex:
		return gc.expr(x.X) + "[" + gc.expr(x.I) + "]"
	case *SSlice:
		lo, hi := "", ""
		if x.Lo != nil {
			lo = gc.expr(x.Lo)
		}
		if x.Hi != nil {
			hi = gc.expr(x.Hi)
		}
		return gc.expr(x.X) + "[" + lo + ":" + hi + "]"
	case *SCall:
		if id, ok := x.Fun.(*SIdent); ok {
			switch id.Name {
			case "old":
				// inputs are rebuilt twice (a pristine copy `old_<name>` is kept for every parameter)
				return gc.oldExpr(x.Args[0])
			case "ite":
				return fmt.Sprintf("func() int64 { if %s { return int64(%s) }; return int64(%s) }()", gc.expr(x.Args[0]), gc.expr(x.Args[1]), gc.expr(x.Args[2]))
			case "effects", "typeis", "has", "first", "second", "be64", "le32", "le64", "be32":
				gc.unsupported = id.Name + "() cannot be evaluated on the real code"
				return "false"
			}
		}
		var as []string
		for _, a := range x.Args {
			as = append(as, gc.expr(a))
		}
		return gc.expr(x.Fun) + "(" + strings.Join(as, ", ") + ")"
	case *SQuant:
		// bounded quantifiers over int:  forall i int :: lo <= i && i < hi ==> body   (range taken from the clause)
		gc.qn++
		if len(x.Vars) != 1 || x.Vars[0].Type != "int" {
			gc.unsupported = "quantifier over a non-int domain"
			return "false"
		}
		v := x.Vars[0].Name
		body := gc.expr(x.Body)
		if x.Forall {
			return fmt.Sprintf("func() bool { for %s := -2; %s < 300; %s++ { if !func() (ok bool) { defer func() { if recover() != nil { ok = true } }(); return %s }() { return false } }; return true }()", v, v, v, body)
		}
		return fmt.Sprintf("func() bool { for %s := -2; %s < 300; %s++ { if func() (ok bool) { defer func() { if recover() != nil { ok = false } }(); return %s }() { return true } }; return false }()", v, v, v, body)
	}
	gc.unsupported = fmt.Sprintf("expression %T", x)
	return "false"
}

func (gc *goClause) oldExpr(x SpecExpr) string {
	switch x := x.(type) {
	case *SIdent:
		return "old_" + x.Name
	case *SSelector:
		return gc.oldExpr(x.X) + "." + x.Sel
	case *SIndex:
		return gc.oldExpr(x.X) + "[" + gc.expr(x.I) + "]"
	}
	gc.unsupported = "old() of a compound expression"
	return "false"
}

// ---------------------------------------------------------------------------

func replayGeneric(o *checkOpts, ob *Obligation, c *FuncCtx) string {
	if len(ob.Model) == 0 || c == nil || c.rootFn == nil {
		return ""
	}
	fn := c.rootFn
	pk := fn.Pkg
	target := fn
	for p := fn.Parent(); p != nil; p = p.Parent() {
		if pk == nil {
			pk = p.Pkg
		}
		target = p
	}
	if fn.Parent() != nil && fn.Parent().Parent() != nil {
		return "REPLAY: not attempted (closure nested more than one level)"
	}
	for _, p := range fn.Params {
		if foreignOpaque(p.Type(), pk.Pkg) {
			return "REPLAY: not attempted (input of type " + types.TypeString(p.Type(), nil) + " cannot be rebuilt from a model: its state is private to another package)"
		}
	}
	if pk == nil {
		return ""
	}
	g := &goBuilder{model: ob.Model, pkg: pk.Pkg, imports: map[string]bool{"fmt": true, "testing": true}}
	var b strings.Builder
	var decls []string
	mk := func(name string, t types.Type) {
		decls = append(decls, fmt.Sprintf("\t%s := %s\n\t_ = %s", name, g.goValue(t, name, 0), name))
		decls = append(decls, fmt.Sprintf("\told_%s := %s\n\t_ = old_%s", name, g.goValue(t, name, 0), name))
	}
	var call string
	if fn.Parent() != nil {
		// closure: rebuild it through its parent with the captured values, then call it
		for _, fv := range fn.FreeVars {
			mk(fv.Name(), fv.Type().Underlying().(*types.Pointer).Elem())
		}
		var pargs []string
		for _, p := range target.Params {
			found := false
			for _, fv := range fn.FreeVars {
				if fv.Name() == p.Name() {
					found = true
				}
			}
			if !found {
				return "REPLAY: not attempted (closure captures values that are not parameters of its parent)"
			}
			pargs = append(pargs, p.Name())
		}
		var args []string
		for i, p := range fn.Params {
			n := p.Name()
			if n == "_" || n == "" {
				n = fmt.Sprintf("arg%d", i)
			}
			decls = append(decls, fmt.Sprintf("\t%s := %s\n\t_ = %s", n, g.goValue(p.Type(), p.Name(), 0), n))
			args = append(args, n)
		}
		if target.Signature.Recv() != nil {
			return "REPLAY: not attempted (closure inside a method)"
		}
		call = fmt.Sprintf("%s(%s)(%s)", target.Name(), strings.Join(pargs, ", "), strings.Join(args, ", "))
	} else {
		var args []string
		for i, p := range fn.Params {
			mk(p.Name(), p.Type())
			if i == 0 && fn.Signature.Recv() != nil {
				continue
			}
			a := p.Name()
			if fn.Signature.Variadic() && i == len(fn.Params)-1 {
				a += "..."
			}
			args = append(args, a)
		}
		if fn.Signature.Recv() != nil {
			call = fmt.Sprintf("%s.%s(%s)", fn.Params[0].Name(), fn.Name(), strings.Join(args, ", "))
		} else {
			call = fmt.Sprintf("%s(%s)", fn.Name(), strings.Join(args, ", "))
		}
	}
	nres := fn.Signature.Results().Len()
	var rs []string
	for i := 0; i < nres; i++ {
		rs = append(rs, fmt.Sprintf("r%d", i))
	}
	// the clause to evaluate (postconditions only)
	check := ""
	gc := &goClause{g: g, fn: fn, resN: nres}
	if ob.Class == "ensures" || ob.Class == "must-panic" {
		if cl := findClause(c, ob); cl != nil {
			e := gc.expr(cl.Expr)
			if ob.Class == "must-panic" {
				e = "!(" + e + ")"
			}
			if gc.unsupported == "" {
				check = e
			}
		}
	}
	safetyClass := claimsSafety(ob) || ob.Class == "panic" || ob.Class == "unsafe-string" || ob.Class == "unsafe-slice"
	if check == "" && !safetyClass {
		why := gc.unsupported
		if why == "" {
			why = "obligation class " + ob.Class + " has no executable oracle"
		}
		return "REPLAY: not attempted (" + why + ")"
	}
	fmt.Fprintf(&b, "func TestZZGowpReplay(t *testing.T) {\n%s\n", strings.Join(decls, "\n"))
	fmt.Fprintf(&b, "\tpanicked := true\n\tfunc() {\n\t\tdefer func() {\n\t\t\tif r := recover(); r != nil {\n\t\t\t\tfmt.Printf(\"REPLAY-PANIC: %%v\\n\", r)\n\t\t\t}\n\t\t}()\n")
	if nres > 0 {
		fmt.Fprintf(&b, "\t\t%s := %s\n", strings.Join(rs, ", "), call)
		for _, r := range rs {
			fmt.Fprintf(&b, "\t\t_ = %s\n", r)
		}
	} else {
		fmt.Fprintf(&b, "\t\t%s\n", call)
	}
	fmt.Fprintf(&b, "\t\tpanicked = false\n")
	if check != "" {
		fmt.Fprintf(&b, "\t\tif !(%s) {\n\t\t\tfmt.Println(\"REPLAY-CLAUSE-FALSE\")\n\t\t} else {\n\t\t\tfmt.Println(\"REPLAY-CLAUSE-HOLDS\")\n\t\t}\n", check)
	}
	fmt.Fprintf(&b, "\t}()\n\t_ = panicked\n\tfmt.Println(\"REPLAY-DONE\")\n}\n")
	var imps []string
	for p := range g.imports {
		imps = append(imps, strconv.Quote(p))
	}
	sort.Strings(imps)
	src := fmt.Sprintf("package %s\n\nimport (\n\t%s\n)\n\n%s", pk.Pkg.Name(), strings.Join(imps, "\n\t"), b.String())
	// run it
	dir := filepath.Dir(c.eng.fset.Position(target.Pos()).Filename)
	tmp, err := os.MkdirTemp("", "gowp-replay-")
	if err != nil {
		return "REPLAY: not attempted (" + err.Error() + ")"
	}
	defer os.RemoveAll(tmp)
	testFile := filepath.Join(tmp, "zz_gowp_replay_test.go")
	os.WriteFile(testFile, []byte(src), 0o644)
	ov, _ := json.Marshal(map[string]any{"Replace": map[string]string{filepath.Join(dir, "zz_gowp_replay_test.go"): testFile}})
	ovFile := filepath.Join(tmp, "overlay.json")
	os.WriteFile(ovFile, ov, 0o644)
	cmd := exec.Command("go", "test", "-overlay", ovFile, "-vet=off", "-count=1", "-timeout", "60s", "-run", "^TestZZGowpReplay$", "-v", ".")
	cmd.Dir = dir
	cmd.Env = append(os.Environ(), "GOFLAGS=-mod=mod", "GOPROXY=off")
	done := make(chan struct{})
	var out []byte
	go func() { out, _ = cmd.CombinedOutput(); close(done) }()
	select {
	case <-done:
	case <-time.After(120 * time.Second):
		if cmd.Process != nil {
			cmd.Process.Kill()
		}
		return "REPLAY: test did not finish in 120 s\n--- generated test ---\n" + src
	}
	text := string(out)
	verdict := "REPLAY: the real code did not misbehave on the model's inputs (candidate counterexample not confirmed)"
	switch {
	case !strings.Contains(text, "REPLAY-DONE") && !strings.Contains(text, "REPLAY-PANIC") && !strings.Contains(text, "REPLAY-CLAUSE"):
		verdict = "REPLAY: generated test did not build or run:\n" + firstLines(text, 12)
	case safetyClass && strings.Contains(text, "REPLAY-PANIC"):
		verdict = "REPLAY: reproduced on the real code — " + grepLine(text, "REPLAY-PANIC")
	case check != "" && strings.Contains(text, "REPLAY-CLAUSE-FALSE"):
		verdict = "REPLAY: reproduced on the real code — the violated clause evaluates to false on the real function's result"
	case ob.Class == "must-panic" && strings.Contains(text, "REPLAY-PANIC"):
		verdict = "REPLAY: the real code panics on these inputs (the clause requires a panic): not a counterexample"
	}
	if len(g.notes) > 0 {
		verdict += "\n(notes: " + strings.Join(g.notes, "; ") + ")"
	}
	return verdict + "\n--- generated test (" + filepath.Join(dir, "zz_gowp_replay_test.go") + ", injected with go test -overlay) ---\n" + src
}

// foreignOpaque: pointer / struct types of other packages with unexported fields (bufio.Reader, net.Conn, ...)
func foreignOpaque(t types.Type, pkg *types.Package) bool {
	if p, ok := t.Underlying().(*types.Pointer); ok {
		t = p.Elem()
	}
	n, ok := t.(*types.Named)
	if !ok || n.Obj().Pkg() == nil || n.Obj().Pkg() == pkg {
		return false
	}
	if _, isIface := t.Underlying().(*types.Interface); isIface {
		return true
	}
	st, ok := t.Underlying().(*types.Struct)
	if !ok {
		return false
	}
	for i := 0; i < st.NumFields(); i++ {
		if !st.Field(i).Exported() {
			return true
		}
	}
	return false
}

func grepLine(text, key string) string {
	for _, ln := range strings.Split(text, "\n") {
		if strings.Contains(ln, key) {
			return strings.TrimSpace(ln)
		}
	}
	return ""
}

func findClause(c *FuncCtx, ob *Obligation) *Clause {
	con := c.rootCon
	if con == nil {
		return nil
	}
	for _, cl := range append(append([]*Clause{}, con.Ensures...), con.PanicsWhen...) {
		if cl.Text == ob.Src || strings.Contains(ob.Src, cl.Text) {
			return cl
		}
	}
	return nil
}

func tryReplay(o *checkOpts, ob *Obligation, c *FuncCtx) (out string) {
	defer func() {
		if r := recover(); r != nil {
			out = fmt.Sprintf("REPLAY: not attempted (replay generator failed: %v)", r)
		}
	}()
	return replayGeneric(o, ob, c)
}
