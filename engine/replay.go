package main

// tryReplay: turn a counterexample into a test against the real code (filled in per signature class).
func tryReplay(o *checkOpts, ob *Obligation, c *FuncCtx) string {
	return replayGeneric(o, ob, c)
}

func replayGeneric(o *checkOpts, ob *Obligation, c *FuncCtx) string { return "" }
