package main

import (
	"context"
	"encoding/json"
	"flag"
	"fmt"
	"os"
	"path/filepath"
	"regexp"
	"runtime"
	"sort"
	"strconv"
	"strings"
	"sync"
	"time"
)

type PropConfig struct {
	Dir      string   `json:"dir"`      // module directory relative to repo root
	Patterns []string `json:"patterns"` // package patterns
	Spec     []string `json:"spec"`     // extra spec files under /verif/spec
}

type KnownFinding struct {
	Property   string `json:"property"`
	Obligation string `json:"obligation"`
	Status     string `json:"status"` // open | fixed
	Commit     string `json:"commit,omitempty"`
	What       string `json:"what"`
	Witness    string `json:"witness,omitempty"`
}

func main() {
	if len(os.Args) < 2 {
		fmt.Fprintln(os.Stderr, "usage: gowp check|ssa|dump ...")
		os.Exit(2)
	}
	switch os.Args[1] {
	case "ssa":
		cmdSSA(os.Args[2:])
	case "check":
		os.Exit(cmdCheck(os.Args[2:]))
	default:
		fmt.Fprintln(os.Stderr, "unknown command", os.Args[1])
		os.Exit(2)
	}
}

func cmdSSA(args []string) {
	e, err := loadEngine(args[0], []string{args[1]}, nil)
	if err != nil {
		fmt.Fprintln(os.Stderr, err)
		os.Exit(2)
	}
	for pk := range e.spkgs {
		_ = pk
	}
	for _, p := range e.pkgs {
		for _, n := range args[2:] {
			if strings.HasPrefix(n, "?") {
				fn := e.findFunc(p.PkgPath, n[1:])
				fmt.Printf("%s: inferNoMods=%v\n", n[1:], e.inferNoMods(fn))
				for g, d := range directMemo {
					if d.bad {
						fmt.Printf("   direct-bad: %s\n", g.String())
					}
				}
				continue
			}
			if fn := e.findFunc(p.PkgPath, n); fn != nil {
				fn.WriteTo(os.Stdout)
			} else {
				fmt.Println("no func", n)
			}
		}
	}
}

type checkOpts struct {
	prop, tier, repo, verif string
	timeout                 int
	only                    string
	dump, out, onlyFn       string
	updateExpected          bool
	verbose                 bool
	jobs                    int
}

func cmdCheck(args []string) int {
	fs := flag.NewFlagSet("check", flag.ExitOnError)
	var o checkOpts
	fs.StringVar(&o.prop, "prop", "", "property id")
	fs.StringVar(&o.tier, "tier", "quick", "quick|thorough")
	fs.StringVar(&o.repo, "repo", "/repo", "repository root")
	fs.StringVar(&o.verif, "verif", "/verif", "verification root")
	fs.IntVar(&o.timeout, "timeout", 0, "per-obligation solver timeout (s)")
	fs.StringVar(&o.only, "only", "", "regexp: only obligations whose name matches")
	fs.StringVar(&o.dump, "dump", "", "directory to dump SMT queries to")
	fs.StringVar(&o.onlyFn, "only-func", "", "debugging: verify only the contracts whose function name matches this regular expression")
	fs.StringVar(&o.out, "out", "", "directory for evidence/ and replays/ (default: the -verif directory)")
	fs.BoolVar(&o.updateExpected, "update-expected", false, "rewrite expected/<prop>.json from this run")
	fs.BoolVar(&o.verbose, "v", false, "verbose")
	fs.IntVar(&o.jobs, "j", 0, "parallel obligations")
	fs.Parse(args)
	if o.timeout == 0 {
		if o.tier == "thorough" {
			o.timeout = 120
		} else {
			o.timeout = 20
		}
	}
	if o.jobs == 0 {
		o.jobs = runtime.NumCPU() / 2
		if o.tier == "thorough" {
			// every obligation runs all solver configurations side by side: keep jobs x runners near the core count, so that
			// wall-clock solver timeouts keep meaning CPU time
			o.jobs = runtime.NumCPU() / 4
		}
		if o.jobs < 2 {
			o.jobs = 2
		}
	}
	return runCheck(&o)
}

func (o *checkOpts) outDir() string {
	if o.out != "" {
		return o.out
	}
	return o.verif
}

type oblReport struct {
	Name   string `json:"name"`
	Class  string `json:"class"`
	Status string `json:"status"`
	Solver string `json:"solver,omitempty"`
	Ms     int64  `json:"ms"`
	Src    string `json:"src,omitempty"`
}

func hasProp(ps []string, p string) bool {
	for _, x := range ps {
		if x == p {
			return true
		}
	}
	return false
}

func runCheck(o *checkOpts) int {
	start := time.Now()
	seed := 0
	if s := os.Getenv("VERIF_SEED"); s != "" {
		seed, _ = strconv.Atoi(s)
	}
	var cfgs map[string][]PropConfig
	data, err := os.ReadFile(filepath.Join(o.verif, "props.json"))
	if err != nil {
		fmt.Fprintln(os.Stderr, "cannot read props.json:", err)
		return 2
	}
	if err := json.Unmarshal(data, &cfgs); err != nil {
		fmt.Fprintln(os.Stderr, "props.json:", err)
		return 2
	}
	pcs, ok := cfgs[o.prop]
	if !ok {
		fmt.Fprintln(os.Stderr, "no configuration for property", o.prop)
		return 2
	}
	known := loadKnown(filepath.Join(o.verif, "known_findings.txt"))
	tmp, err := os.MkdirTemp("", "gowp-"+o.prop+"-")
	if err != nil {
		fmt.Fprintln(os.Stderr, err)
		return 2
	}
	defer os.RemoveAll(tmp)

	var allObls []*Obligation
	sampledSkipped := 0
	skippedFuncs := map[string]bool{}
	untranslatable := map[string]string{} // function (display name + tag) -> why its contract could not be evaluated
	oblCtx := map[*Obligation]*FuncCtx{}
	var funcs []map[string]any
	var engineFaults []string
	var missing []string
	assumptions := map[string]bool{}
	var loadS float64
	for _, pc := range pcs {
		t0 := time.Now()
		var spec []string
		for _, s := range pc.Spec {
			spec = append(spec, filepath.Join(o.verif, "spec", s))
		}
		eng, err := loadEngine(filepath.Join(o.repo, pc.Dir), pc.Patterns, spec)
		loadS += time.Since(t0).Seconds()
		if err != nil {
			// a tree that does not build/load cannot be verified: report as engine fault (not a violation)
			fmt.Fprintln(os.Stderr, "ENGINE-FAULT: load:", err)
			return 2
		}
		var onlyRe *regexp.Regexp
		_ = untranslatable
		if o.onlyFn != "" {
			onlyRe = regexp.MustCompile(o.onlyFn)
		}
		for _, key := range eng.cs.Order {
			con := eng.cs.Funcs[key]
			if con.External || !con.Props[o.prop] {
				continue
			}
			if onlyRe != nil && !onlyRe.MatchString(con.Func) {
				continue
			}
			if !o.updateExpected && sampledOut(con, o.tier, seed) {
				sampledSkipped++
				if fn := eng.findFunc(con.Pkg, con.Func); fn != nil {
					skippedFuncs[fnDisplayName(fn)] = true
				} else {
					missing = append(missing, con.Pkg+"::"+con.Func)
				}
				continue
			}
			res := eng.verifyFunc(con)
			info := map[string]any{"function": con.Func, "package": con.Pkg}
			if res.Fn == nil {
				untranslatable[con.Func+con.Tag] = "contract target not found in the current tree"
				missing = append(missing, con.Pkg+"::"+con.Func)
				info["error"] = "contract target not found in the current tree"
				funcs = append(funcs, info)
				continue
			}
			c := res.Ctx
			if res.Err != nil {
				untranslatable[fnDisplayName(res.Fn)+con.Tag] = res.Err.Error()
				info["error"] = res.Err.Error()
				engineFaults = append(engineFaults, fmt.Sprintf("%s: %v", con.Func, res.Err))
				funcs = append(funcs, info)
				// obligations generated before the failure are still checked; the function is reported as not fully translated
			}
			if c != nil {
				n := 0
				for _, ob := range c.obls {
					if hasProp(ob.Props, o.prop) || (ob.Class == "cover") {
						if ob.Class != "cover" || hasProp(ob.Props, o.prop) {
							allObls = append(allObls, ob)
							oblCtx[ob] = c
							n++
						}
					}
				}
				info["ssa_instructions"] = c.stats.instrs
				info["calls"] = map[string]int{"total": c.stats.calls, "by_contract": c.stats.callsContract, "inlined": c.stats.callsInline, "havocked": c.stats.callsHavoc, "builtin_model": c.stats.callsBuiltin}
				info["loops"] = c.stats.loops
				info["loops_with_invariant"] = c.stats.loopsWithInv
				info["concurrency_primitives_abstracted"] = c.stats.conc
				info["abstracted"] = c.notes
				info["obligations"] = n
				if res.Err == nil {
					funcs = append(funcs, info)
				}
				for a := range c.assumptions {
					assumptions[a] = true
				}
			}
		}
		// lemmas
		lc, lobls, lerr := eng.lemmaObligations(o.prop)
		if lerr != nil {
			engineFaults = append(engineFaults, "lemmas: "+lerr.Error())
		}
		for _, ob := range lobls {
			allObls = append(allObls, ob)
			oblCtx[ob] = lc[ob]
		}
		for _, cx := range lc {
			for a := range cx.assumptions {
				assumptions[a] = true
			}
		}
		ic, iobls := eng.immutableObligations(o.prop)
		for _, ob := range iobls {
			allObls = append(allObls, ob)
			oblCtx[ob] = ic[ob]
			for a := range ic[ob].assumptions {
				assumptions[a] = true
			}
		}
	}
	if o.only != "" {
		re := regexp.MustCompile(o.only)
		var fl []*Obligation
		for _, ob := range allObls {
			if re.MatchString(ob.Name) {
				fl = append(fl, ob)
			}
		}
		allObls = fl
	}
	// discharge
	var wg sync.WaitGroup
	sem := make(chan struct{}, o.jobs)
	var solverMs int64
	var mu sync.Mutex
	// quick tier, first pass: one incremental solver process per function (push/pop per obligation). Only `unsat`
	// answers (and `sat` for covers) are taken from this pass; everything else goes through the individual path
	// below, which produces models, tries the relaxation and races the three solvers.
	if o.tier != "thorough" && o.dump == "" {
		groups := map[*FuncCtx][]*Obligation{}
		var order []*FuncCtx
		for _, ob := range allObls {
			c := oblCtx[ob]
			if _, ok := groups[c]; !ok {
				order = append(order, c)
			}
			groups[c] = append(groups[c], ob)
		}
		for gi, c := range order {
			wg.Add(1)
			sem <- struct{}{}
			go func(gi int, c *FuncCtx, obs []*Obligation) {
				defer wg.Done()
				defer func() { <-sem }()
				ms := dischargeBatch(c, obs, tmp, gi)
				mu.Lock()
				solverMs += ms
				mu.Unlock()
			}(gi, c, groups[c])
		}
		wg.Wait()
	}
	for i, ob := range allObls {
		if ob.Status == "unsat" || (ob.Cover && ob.Status == "sat") {
			continue // decided in the batch pass
		}
		wg.Add(1)
		sem <- struct{}{}
		go func(i int, ob *Obligation) {
			defer wg.Done()
			defer func() { <-sem }()
			c := oblCtx[ob]
			q := c.buildQuery(ob, true)
			if o.dump != "" {
				os.MkdirAll(o.dump, 0o755)
				os.WriteFile(filepath.Join(o.dump, fmt.Sprintf("%03d_%s.smt2", i, sanitizeFile(ob.Name))), []byte(q), 0o644)
			}
			thorough := o.tier == "thorough" && !ob.Cover
			var r solveResult
			decided := func() bool { return r.status == "sat" || r.status == "unsat" || r.status == "disagree" }
			if !thorough {
				st, out, ms := runOne(context.Background(), solvers[0], writeTmp(tmp, fmt.Sprintf("q%d_first.smt2", i), q), 3)
				r = solveResult{status: st, solver: solvers[0].name, ms: ms, out: out}
			}
			if !decided() && !ob.Cover && !thorough {
				// recursive spec functions the goal does not mention, left uninterpreted (fewer assumptions: unsat carries over)
				for _, all := range []bool{false, true} {
					if q3, ok := opaqueRecVariant(q, ob.Goal, all); ok && !decided() {
						st3, out3, ms3 := runOne(context.Background(), solvers[0], writeTmp(tmp, fmt.Sprintf("q%d_opaquerec%v.smt2", i, all), q3), 5)
						if st3 == "unsat" {
							r = solveResult{status: "unsat", solver: solvers[0].name + " (recursive spec functions uninterpreted)", ms: r.ms + ms3, out: out3}
						}
					}
				}
			}
			if !decided() && !ob.Cover && !thorough {
				// undecided: try the relaxation without quantified axioms. unsat there is unsat here (fewer
				// assumptions); sat there is only a candidate model (solvers rarely return models under quantifiers).
				q2 := c.buildQueryOpt(ob, true, true)
				st2, out2, ms2 := runOne(context.Background(), solvers[0], writeTmp(tmp, fmt.Sprintf("q%d_relaxed.smt2", i), q2), 5)
				if st2 == "unsat" {
					r = solveResult{status: "unsat", solver: solvers[0].name + " (quantifier-free relaxation)", ms: r.ms + ms2, out: out2}
				} else if st2 == "sat" {
					// only a candidate: the full query still gets its full time budget on all solvers below
					cand := solveResult{status: "sat", solver: solvers[0].name + " (candidate model: quantified axioms dropped)", ms: r.ms + ms2, out: out2}
					full := solve(q, tmp, fmt.Sprintf("q%d", i), oblTimeout(c, o.timeout), thorough)
					if full.status == "unsat" || full.status == "sat" || full.status == "disagree" {
						r = full
					} else {
						r = cand
						r.ms += full.ms
					}
				}
			}
			if !decided() {
				r = solve(q, tmp, fmt.Sprintf("q%d", i), oblTimeout(c, o.timeout), thorough)
			}
			if !decided() && !ob.Cover && thorough {
				for _, all := range []bool{false, true} {
					if q3, ok := opaqueRecVariant(q, ob.Goal, all); ok && !decided() {
						r3 := solve(q3, tmp, fmt.Sprintf("q%d_opaquerec%v", i, all), oblTimeout(c, o.timeout), true)
						if r3.status == "unsat" {
							r3.solver += " (recursive spec functions uninterpreted)"
							r = r3
						}
					}
				}
			}
			ob.Status, ob.Solver, ob.Ms, ob.Output = r.status, r.solver, r.ms, r.out
			if r.status == "sat" {
				ob.Model = parseGetValue(r.out, ob.Inputs)
			}
			mu.Lock()
			solverMs += r.ms
			mu.Unlock()
		}(i, ob)
	}
	wg.Wait()

	// a function whose loop invariants / call preconditions / frame are not established proves nothing else: every
	// other obligation of that function was discharged *assuming* them
	tainted := map[string]string{}
	for _, ob := range allObls {
		switch ob.Class {
		case "invariant-init", "invariant-pres", "requires":
			okStatus := "unsat"
			if ob.Status != okStatus {
				if kf := known.match(o.prop, ob.Name); kf != nil && kf.Status == "open" {
					continue // recorded finding: reported on its own line, the rest of the function stays claimed
				}
				if _, has := tainted[ob.Func]; !has {
					tainted[ob.Func] = ob.Name
				}
			}
		}
	}
	for _, ob := range allObls {
		if why, bad := tainted[ob.Func]; bad && !ob.Cover && ob.Status == "unsat" {
			switch ob.Class {
			case "invariant-init", "invariant-pres", "requires":
			default:
				ob.Status = "unsupported"
				ob.Output = "discharged only under an assumption that is itself not established: " + why
			}
		}
	}

	// verdicts
	expectedPath := filepath.Join(o.verif, "expected", o.prop+".json")
	expected := loadExpected(expectedPath)
	violations := 0
	undecided := 0
	discharged := 0
	nObl := 0
	covers, coversOK := 0, 0
	var reports []oblReport
	var knownHit []string
	var unproved []string
	seen := map[string]bool{}
	sort.SliceStable(allObls, func(i, j int) bool { return allObls[i].Name < allObls[j].Name })
	for _, ob := range allObls {
		seen[ob.Name] = true
		if ob.Cover {
			covers++
			if ob.Status == "sat" {
				coversOK++
			} else if ob.Status == "unsat" {
				engineFaults = append(engineFaults, "vacuous precondition: "+ob.Name)
			}
			continue
		}
		rep := oblReport{Name: ob.Name, Class: ob.Class, Status: ob.Status, Solver: ob.Solver, Ms: ob.Ms, Src: ob.Src}
		okStatus := "unsat"
		if ob.ExpectSat {
			okStatus = "sat"
		}
		if kf := known.match(o.prop, ob.Name); kf != nil && kf.Status == "open" {
			// a recorded finding: must still fail; reported, not counted
			if ob.Status == okStatus {
				fmt.Printf("NOTE: known finding no longer reproduces: property=%s %s\n", o.prop, ob.Name)
				nObl++
				discharged++
			} else {
				fmt.Printf("KNOWN-FINDING: property=%s %s — %s\n", o.prop, ob.Name, kf.What)
				knownHit = append(knownHit, ob.Name)
			}
			rep.Status += " (known finding)"
			reports = append(reports, rep)
			continue
		}
		reports = append(reports, rep)
		if o.updateExpected {
			if ob.Status == okStatus {
				nObl++
				discharged++
			} else {
				unproved = append(unproved, ob.Name+" ["+ob.Status+"]")
			}
			continue
		}
		if !expected.has(ob.Name) && len(expected.Names) > 0 && ob.Status != okStatus && !claimsSafety(ob) {
			// never discharged on the committed tree and not a safety claim: undecided, not a violation
			unproved = append(unproved, ob.Name+" ["+ob.Status+"]")
			continue
		}
		nObl++
		if ob.Status == okStatus {
			discharged++
			continue
		}
		if ob.Status == "disagree" {
			engineFaults = append(engineFaults, "solver disagreement on "+ob.Name+": "+ob.Output)
			continue
		}
		if ob.Status == "error" {
			engineFaults = append(engineFaults, "ill-formed query for "+ob.Name+": "+firstLines(ob.Output, 2))
			continue
		}
		violations++
		path := writeReplay(o, ob, oblCtx[ob])
		suffix := ""
		if ob.Status != "sat" || !replayReproduced(path) {
			suffix = " no-failing-input-found"
		}
		fmt.Printf("VIOLATION property=%s replay=%s%s\n", o.prop, path, suffix)
		fmt.Printf("  obligation %s: %s (%s)\n", ob.Name, ob.Status, ob.Src)
	}
	// expected obligations that vanished
	if !o.updateExpected && o.only == "" && o.onlyFn == "" {
		for _, n := range expected.Names {
			if i := strings.Index(n, "#"); i > 0 && skippedFuncs[n[:i]] {
				continue // function not in this run's quick-tier sample
			}
			if !seen[n] {
				if kf := known.match(o.prop, n); kf != nil && kf.Status == "open" {
					continue
				}
				if why := untranslatableFor(untranslatable, n); why != "" {
					// the contract of this function could not be evaluated against the current code (a name, call site or
					// loop it mentions is gone): that decides nothing — it is reported as undecided (exit 2), never as a violation
					undecided++
					nObl++
					fmt.Printf("UNDECIDED property=%s obligation=%s: the contract no longer matches the code (%s)\n", o.prop, n, why)
					continue
				}
				violations++
				nObl++
				ob := &Obligation{Name: n, Status: "missing", Output: "obligation present in expected/" + o.prop + ".json was not generated from the current tree (contract target or loop vanished, or translation failed: " + strings.Join(engineFaults, "; ") + ")"}
				path := writeReplay(o, ob, nil)
				fmt.Printf("VIOLATION property=%s replay=%s no-failing-input-found\n", o.prop, path)
				fmt.Printf("  obligation %s: not generated from the current tree\n", n)
			}
		}
	}
	for _, m := range missing {
		fmt.Printf("NOTE: contract target missing: %s\n", m)
	}
	if o.updateExpected && (len(engineFaults) > 0 || len(missing) > 0) {
		fmt.Println("expected file NOT updated: engine faults / missing contract targets must be resolved first")
		for _, ef := range engineFaults {
			fmt.Println("  ENGINE-FAULT", ef)
		}
		return 2
	}
	if o.updateExpected {
		var names []string
		for _, ob := range allObls {
			okStatus := "unsat"
			if ob.ExpectSat {
				okStatus = "sat"
			}
			if !ob.Cover && ob.Status == okStatus {
				names = append(names, ob.Name)
			}
		}
		sort.Strings(names)
		os.MkdirAll(filepath.Dir(expectedPath), 0o755)
		b, _ := json.MarshalIndent(map[string]any{"property": o.prop, "obligations": names}, "", " ")
		os.WriteFile(expectedPath, b, 0o644)
		fmt.Printf("expected/%s.json: %d obligations recorded; %d not discharged (not recorded)\n", o.prop, len(names), len(unproved))
	}
	if o.verbose || o.updateExpected {
		for _, r := range reports {
			fmt.Printf("  %-8s %-7s %5dms %s\n", r.Status, r.Solver, r.Ms, r.Name)
		}
		for _, u := range unproved {
			fmt.Println("  UNPROVED", u)
		}
		for _, ef := range engineFaults {
			fmt.Println("  ENGINE-FAULT", ef)
		}
	}
	// evidence
	var samples []any
	for i, ob := range allObls {
		if i >= 6 {
			break
		}
		samples = append(samples, map[string]any{"obligation": ob.Name, "class": ob.Class, "status": ob.Status, "source": ob.Src, "smt_bytes": len(oblCtx[ob].buildQuery(ob, false))})
	}
	var asl []string
	for a := range assumptions {
		asl = append(asl, a)
	}
	sort.Strings(asl)
	tb := []string{"go/types + x/tools/go/ssa v0.29.0 (front end)", "gowp translator SSA->SMT (this repository, /verif/engine)", "z3 5.1.0, z3 4.8.12, cvc5 1.0 (unsat answers)", "built-in models of sync, sync/atomic, strings, strconv, fmt, errors, time (engine/models.go)"}
	ev := map[string]any{
		"property_id": o.prop, "tier": o.tier, "seed": seed, "level": "proof",
		"coverage": map[string]any{
			"obligations": nObl, "discharged": discharged,
			"checker_cmd":                          fmt.Sprintf("bin/gowp check -prop %s -tier %s", o.prop, o.tier),
			"trusted_base":                         tb,
			"functions_under_contract":             funcs,
			"per_obligation":                       reports,
			"solver_time_s":                        float64(solverMs) / 1000,
			"load_time_s":                          loadS,
			"covers":                               map[string]int{"checked": covers, "satisfiable": coversOK},
			"known_findings":                       knownHit,
			"unproved_not_claimed":                 unproved,
			"engine_faults":                        engineFaults,
			"schema_functions_not_in_quick_sample": sampledSkipped,
			"samples":                              samples,
		},
		"assumptions": asl,
		"wall_s":      time.Since(start).Seconds(),
		"violations":  violations,
	}
	if nObl == 0 {
		// vacuity guard
		fmt.Printf("ENGINE-FAULT: no obligations generated for %s\n", o.prop)
		ev["coverage"].(map[string]any)["explanation"] = "no obligations generated"
	}
	os.MkdirAll(filepath.Join(o.outDir(), "evidence"), 0o755)
	b, _ := json.MarshalIndent(ev, "", " ")
	os.WriteFile(filepath.Join(o.outDir(), "evidence", o.prop+".json"), b, 0o644)
	fmt.Printf("%s %s: %d obligations, %d discharged, %d known findings, %d violations, %d engine faults, %.1fs\n", o.prop, o.tier, nObl, discharged, len(knownHit), violations, len(engineFaults), time.Since(start).Seconds())
	if violations > 0 {
		return 1
	}
	if undecided > 0 {
		for _, ef := range engineFaults {
			fmt.Println("ENGINE-FAULT:", ef)
		}
		return 2
	}
	if nObl == 0 || (len(engineFaults) > 0 && !o.updateExpected && o.only == "" && o.onlyFn == "") {
		for _, ef := range engineFaults {
			fmt.Println("ENGINE-FAULT:", ef)
		}
		return 2
	}
	return 0
}

// untranslatableFor: the reason why the function that obligation `name` belongs to could not be put under its contract.
func untranslatableFor(m map[string]string, name string) string {
	i := strings.Index(name, "#")
	if i < 0 {
		return ""
	}
	fn := name[:i]
	rest := name[i:]
	// tagged contracts: NAME#tag#class:...
	if strings.HasPrefix(rest, "#") {
		if j := strings.Index(rest[1:], "#"); j >= 0 {
			if why, ok := m[fn+rest[:j+1]]; ok {
				return why
			}
		}
	}
	if why, ok := m[fn]; ok {
		return why
	}
	// missing targets are recorded by their contract name (without the package prefix)
	for k, why := range m {
		if strings.HasSuffix(fn, "."+k) || strings.HasSuffix(fn+rest, "."+k) {
			return why
		}
	}
	return ""
}

func claimsSafety(ob *Obligation) bool {
	switch ob.Class {
	case "index", "slice", "makeslice", "div", "nil", "assert-type", "panic", "alloc":
		return true
	}
	return false
}

func sanitizeFile(s string) string {
	var b strings.Builder
	for _, r := range s {
		if r >= 'a' && r <= 'z' || r >= 'A' && r <= 'Z' || r >= '0' && r <= '9' || r == '.' || r == '-' {
			b.WriteRune(r)
		} else {
			b.WriteByte('_')
		}
	}
	out := b.String()
	if len(out) > 120 {
		out = out[:120]
	}
	return out
}

type expectedFile struct {
	Names []string `json:"obligations"`
	set   map[string]bool
}

func loadExpected(path string) *expectedFile {
	e := &expectedFile{set: map[string]bool{}}
	b, err := os.ReadFile(path)
	if err != nil {
		return e
	}
	json.Unmarshal(b, e)
	for _, n := range e.Names {
		e.set[n] = true
	}
	return e
}

func (e *expectedFile) has(n string) bool {
	if e.set[n] {
		return true
	}
	if i := strings.LastIndex(n, "~"); i >= 0 {
		if e.set[n[:i]] {
			return true
		}
		n = n[:i]
	}
	// `assert … at CALLEE` holds at EVERY call of CALLEE: a call site that did not exist when the expected list was
	// written (name@k) is covered by the claim made for the clause
	if i := strings.LastIndex(n, "@"); i >= 0 && strings.Contains(n, "#assert:") {
		return e.set[n[:i]]
	}
	return false
}

type knownSet struct{ list []KnownFinding }

func loadKnown(path string) *knownSet {
	// text file; one entry per line:
	//   KNOWN-FINDING: property=<id> obligation=<obligation name> :: <what fails>
	//   fixed: property=<id> <commit> <what failed>            (suppresses nothing)
	ks := &knownSet{}
	b, err := os.ReadFile(path)
	if err != nil {
		return ks
	}
	for _, ln := range strings.Split(string(b), "\n") {
		ln = strings.TrimSpace(ln)
		if !strings.HasPrefix(ln, "KNOWN-FINDING:") {
			continue
		}
		rest := strings.TrimSpace(strings.TrimPrefix(ln, "KNOWN-FINDING:"))
		parts := strings.SplitN(rest, " :: ", 2)
		head := parts[0]
		what := ""
		if len(parts) == 2 {
			what = parts[1]
		}
		i := strings.Index(head, " obligation=")
		if !strings.HasPrefix(head, "property=") || i < 0 {
			continue
		}
		ks.list = append(ks.list, KnownFinding{Property: strings.TrimPrefix(head[:i], "property="), Obligation: strings.TrimSpace(head[i+len(" obligation="):]), Status: "open", What: what})
	}
	return ks
}

func (k *knownSet) match(prop, obl string) *KnownFinding {
	for i := range k.list {
		if k.list[i].Property == prop && k.list[i].Obligation == obl {
			return &k.list[i]
		}
	}
	return nil
}

func writeReplay(o *checkOpts, ob *Obligation, c *FuncCtx) string {
	dir := filepath.Join(o.outDir(), "replays", o.prop)
	os.MkdirAll(dir, 0o755)
	path := filepath.Join(dir, sanitizeFile(ob.Name)+".txt")
	var b strings.Builder
	fmt.Fprintf(&b, "property: %s\nobligation: %s\nclass: %s\nstatus: %s\nsolver: %s\nsource: %s\nposition: %s\n", o.prop, ob.Name, ob.Class, ob.Status, ob.Solver, ob.Src, ob.Pos)
	if len(ob.Model) > 0 {
		fmt.Fprintf(&b, "counterexample (function inputs):\n")
		var ks []string
		for k := range ob.Model {
			ks = append(ks, k)
		}
		sort.Strings(ks)
		for _, k := range ks {
			if strings.Contains(k, "[") {
				continue
			}
			fmt.Fprintf(&b, "  %s = %s\n", k, ob.Model[k])
		}
		for _, s := range modelStrings(ob) {
			fmt.Fprintf(&b, "  %s\n", s)
		}
	}
	fmt.Fprintf(&b, "solver output:\n%s\n", ob.Output)
	if c != nil {
		if rp := tryReplay(o, ob, c); rp != "" {
			fmt.Fprintf(&b, "%s\n", rp)
		}
	}
	os.WriteFile(path, []byte(b.String()), 0o644)
	return path
}

func modelStrings(ob *Obligation) []string {
	var out []string
	for k, v := range ob.Model {
		if strings.Contains(k, "[") {
			continue
		}
		// is it a string length entry?
		isStr := false
		for _, iv := range ob.Inputs {
			if iv.Name == k && iv.Kind == "strlen" {
				isStr = true
			}
		}
		if !isStr {
			continue
		}
		n, _ := strconv.Atoi(v)
		var bs []byte
		for i := 0; i < n && i < 24; i++ {
			bv, _ := strconv.Atoi(ob.Model[fmt.Sprintf("%s[%d]", k, i)])
			bs = append(bs, byte(bv))
		}
		out = append(out, fmt.Sprintf("%s = %q (len %d)", k, string(bs), n))
	}
	sort.Strings(out)
	return out
}

func replayReproduced(path string) bool {
	b, err := os.ReadFile(path)
	if err != nil {
		return false
	}
	return strings.Contains(string(b), "REPLAY: reproduced on the real code")
}

// oblTimeout: `option timeout=N` on the contract of the function under verification raises the per-obligation budget.
func oblTimeout(c *FuncCtx, dflt int) int {
	if c != nil && c.rootCon != nil {
		if v := c.rootCon.Options["timeout"]; v != "" {
			if n, err := strconv.Atoi(v); err == nil && n > dflt {
				return n
			}
		}
	}
	return dflt
}
