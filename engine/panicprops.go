package main

import "sort"

// panicProps: properties claiming that this function panics only under its declared `panics when` condition:
// the safety claims for class panic plus the properties named on the panics clauses themselves.
func (f *Frame) panicProps() []string {
	set := map[string]bool{}
	for _, p := range f.safetyProps("panic") {
		set[p] = true
	}
	root := f
	for root.callerFrame != nil {
		root = root.callerFrame
	}
	if root.con != nil {
		for _, cl := range root.con.PanicsWhen {
			for _, p := range cl.Props {
				set[p] = true
			}
		}
	}
	var out []string
	for p := range set {
		out = append(out, p)
	}
	sort.Strings(out)
	return out
}

// sampled: quick-tier sampling of schema-generated contracts (`option sample=N`): the function is verified in the
// quick tier iff hash(name, seed) % N == 0; the thorough tier verifies all of them.
func sampledOut(con *Contract, tier string, seed int) bool {
	if tier == "thorough" || con.Options["sample"] == "" {
		return false
	}
	n := 0
	for _, ch := range con.Options["sample"] {
		if ch >= '0' && ch <= '9' {
			n = n*10 + int(ch-'0')
		}
	}
	if n <= 1 {
		return false
	}
	return int(hashStr(con.Func)+uint32(seed))%n != 0
}
