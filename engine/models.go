package main

// Built-in models of standard-library functions (trusted; listed in the evidence when used).

import (
	"fmt"
	"go/types"
	"strings"

	"golang.org/x/tools/go/ssa"
)

type model struct {
	fn   func(f *Frame, cur *blockCur, in ssa.Instruction, cc *ssa.CallCommon, args []Val, rt types.Type, hint string) Val
	mods func(f *Frame, cc *ssa.CallCommon) []string
	pure func(e *SpecEnv, args []Val, rt types.Type) Val
}

var builtinModels = map[string]*model{}

func noop(f *Frame, cur *blockCur, in ssa.Instruction, cc *ssa.CallCommon, args []Val, rt types.Type, hint string) Val {
	return Val{T: rt, Tup: []Val{}}
}

func freshResult(note string) func(f *Frame, cur *blockCur, in ssa.Instruction, cc *ssa.CallCommon, args []Val, rt types.Type, hint string) Val {
	return func(f *Frame, cur *blockCur, in ssa.Instruction, cc *ssa.CallCommon, args []Val, rt types.Type, hint string) Val {
		if note != "" {
			f.c.assume(note)
		}
		r := f.freshVal(rt, hint)
		cur.assume(f.typeInv(r))
		return r
	}
}

// pure externals: deterministic, side-effect free, modelled as uninterpreted functions of their arguments
var pureExternalNames = map[string]bool{}

func pureExternal(name string) bool {
	if pureExternalNames[name] {
		return true
	}
	return false
}

func init() {
	for _, n := range []string{
		"strconv.Itoa", "strconv.FormatInt", "strconv.FormatUint", "strconv.FormatFloat", "strconv.ParseInt", "strconv.ParseUint", "strconv.ParseFloat",
		"strconv.Atoi", "strconv.ParseBool", "strconv.Quote", "strconv.FormatBool",
		"strings.ToUpper", "strings.ToLower", "strings.TrimSpace", "strings.TrimPrefix", "strings.TrimSuffix", "strings.Contains",
		"strings.Index", "strings.IndexByte", "strings.LastIndex", "strings.LastIndexByte", "strings.EqualFold", "strings.Repeat", "strings.Trim",
		"strings.TrimLeft", "strings.TrimRight", "strings.Count", "strings.Compare", "strings.ContainsRune", "strings.ContainsAny", "strings.Cut",
		"math.Float32bits", "math.Float32frombits", "math.Float64bits", "math.Float64frombits", "math.Log", "math.Log10", "math.Log2", "math.Pow", "math.Pow10",
		"math.Ceil", "math.Floor", "math.Round", "math.Abs", "math.Sqrt", "math.IsNaN", "math.IsInf", "math.Inf", "math.NaN", "math.Exp", "math.Max", "math.Min", "math.Trunc",
		"net.JoinHostPort", "net.SplitHostPort", "net.ParseIP", "path.Base", "unicode.IsUpper", "unicode.IsLower", "unicode.ToUpper", "unicode.ToLower",
		"time.Duration.Milliseconds", "time.Duration.Seconds", "time.Duration.Microseconds", "time.Duration.Nanoseconds", "time.Duration.String",
		"(time.Duration).Milliseconds", "(time.Duration).Seconds", "(time.Duration).Microseconds", "(time.Duration).Nanoseconds", "(time.Duration).String",
		"(time.Time).Unix", "(time.Time).UnixMilli", "(time.Time).UnixNano", "(time.Time).UnixMicro", "(time.Time).Add", "(time.Time).Sub", "(time.Time).Before", "(time.Time).After",
		"(time.Time).IsZero", "(time.Time).Equal", "time.Unix", "time.UnixMilli", "time.ParseDuration",
		"github.com/redis/rueidis/internal/util.ToFloat64", "github.com/redis/rueidis/internal/util.ToFloat32",
		"unicode/utf8.RuneCountInString", "unicode/utf8.ValidString", "bytes.Equal", "bytes.HasPrefix", "bytes.IndexByte",
		"(encoding/binary.littleEndian).Uint32", "(encoding/binary.littleEndian).Uint64", "(encoding/binary.bigEndian).Uint32", "(encoding/binary.bigEndian).Uint64",
		"(encoding/binary.littleEndian).Uint16", "(encoding/binary.bigEndian).Uint16",
		"(*net/url.URL).Query", "(net/url.Values).Get", "(net/url.Values).Has", "(*net/url.URL).Hostname", "(*net/url.URL).Port", "(*net/url.Userinfo).Username",
		"(*net/url.Userinfo).Password", "net/url.Parse",
		"errors.Is", "errors.As", "errors.Unwrap",
		"(*github.com/redis/rueidis/internal/cmds.Completed).IsZero",
	} {
		pureExternalNames[n] = true
	}

	for _, n := range []string{
		"(*sync.Mutex).Lock", "(*sync.Mutex).Unlock", "(*sync.RWMutex).Lock", "(*sync.RWMutex).Unlock", "(*sync.RWMutex).RLock", "(*sync.RWMutex).RUnlock",
		"(*sync.Cond).Signal", "(*sync.Cond).Broadcast", "(*sync.WaitGroup).Add", "(*sync.WaitGroup).Done", "(*sync.WaitGroup).Wait",
		"runtime.Gosched", "runtime.KeepAlive", "(*sync.Once).Do", "time.Sleep",
	} {
		name := n
		builtinModels[name] = &model{fn: func(f *Frame, cur *blockCur, in ssa.Instruction, cc *ssa.CallCommon, args []Val, rt types.Type, hint string) Val {
			f.c.stats.conc++
			if strings.Contains(name, "Once") {
				f.c.note("sync.Once.Do: callback not followed")
			}
			return Val{T: rt, Tup: []Val{}}
		}}
	}
	builtinModels["(*sync.Cond).Wait"] = &model{fn: func(f *Frame, cur *blockCur, in ssa.Instruction, cc *ssa.CallCommon, args []Val, rt types.Type, hint string) Val {
		f.c.stats.conc++
		f.c.note("sync.Cond.Wait: all heaps havocked (other goroutines ran)")
		f.havocAll(cur)
		return Val{T: rt, Tup: []Val{}}
	}, mods: nil}

	// atomics: the value read is unconstrained (other goroutines); stores havoc the cell
	atomicTypes := []string{"Uint32", "Uint64", "Int32", "Int64", "Bool", "Value", "Pointer", "Uintptr"}
	for _, at := range atomicTypes {
		for _, m := range []string{"Load", "Add", "Swap", "CompareAndSwap", "And", "Or"} {
			builtinModels[fmt.Sprintf("(*sync/atomic.%s).%s", at, m)] = &model{fn: freshResult("atomic operations return an arbitrary value (no cross-goroutine reasoning)")}
		}
		builtinModels[fmt.Sprintf("(*sync/atomic.%s).Store", at)] = &model{fn: noop}
		// Add: also counted in the ghost effect counter (`effects()` in specs), so that contracts can say how many
		// times a shared round-robin cursor is advanced
		builtinModels[fmt.Sprintf("(*sync/atomic.%s).Add", at)] = &model{fn: func(f *Frame, cur *blockCur, in ssa.Instruction, cc *ssa.CallCommon, args []Val, rt types.Type, hint string) Val {
			f.c.assume("atomic operations return an arbitrary value (no cross-goroutine reasoning)")
			f.recordEffect(cur, "atomic-add", args)
			r := f.freshVal(rt, hint)
			cur.assume(f.typeInv(r))
			return r
		}, mods: func(f *Frame, cc *ssa.CallCommon) []string { return []string{"G_effects"} }}
	}
	for _, fnm := range []string{"LoadUint32", "LoadInt32", "LoadUint64", "LoadInt64", "LoadPointer", "LoadUintptr", "AddUint32", "AddInt32", "AddUint64", "AddInt64",
		"CompareAndSwapInt32", "CompareAndSwapUint32", "CompareAndSwapInt64", "CompareAndSwapUint64", "CompareAndSwapPointer", "SwapInt32", "SwapUint32", "SwapPointer"} {
		builtinModels["sync/atomic."+fnm] = &model{fn: freshResult("atomic operations return an arbitrary value (no cross-goroutine reasoning)")}
	}
	for _, fnm := range []string{"StoreUint32", "StoreInt32", "StoreUint64", "StoreInt64", "StorePointer"} {
		builtinModels["sync/atomic."+fnm] = &model{fn: func(f *Frame, cur *blockCur, in ssa.Instruction, cc *ssa.CallCommon, args []Val, rt types.Type, hint string) Val {
			// havoc the addressed cell
			p := f.c.ptrOf(args[0])
			el := args[0].T.Underlying().(*types.Pointer).Elem()
			fresh := f.c.declare(hint+"_atomic", f.c.so.sortOf(el))
			cur.st = f.c.store(cur.st, p, fresh)
			return Val{T: rt, Tup: []Val{}}
		}, mods: func(f *Frame, cc *ssa.CallCommon) []string { return f.staticHeapKeys(cc.Args[0]) }}
	}

	nonNilErr := func(f *Frame, cur *blockCur, in ssa.Instruction, cc *ssa.CallCommon, args []Val, rt types.Type, hint string) Val {
		r := f.freshVal(rt, hint)
		cur.assume(fmt.Sprintf("(not (= %s iface_nil))", r.S))
		cur.assume(fmt.Sprintf("(= (i_tag %s) %d)", r.S, f.c.typeIDByName("*errors.errorString")))
		return r
	}
	builtinModels["errors.New"] = &model{fn: nonNilErr}
	builtinModels["fmt.Errorf"] = &model{fn: nonNilErr}
	builtinModels["fmt.Sprintf"] = &model{fn: freshResult("")}
	builtinModels["fmt.Sprint"] = &model{fn: freshResult("")}
	builtinModels["time.Now"] = &model{fn: freshResult("time.Now() is an arbitrary input")}
	builtinModels["time.Since"] = &model{fn: freshResult("time.Now() is an arbitrary input")}
	builtinModels["time.Until"] = &model{fn: freshResult("time.Now() is an arbitrary input")}

	// strings with light axioms
	builtinModels["strings.HasPrefix"] = &model{fn: func(f *Frame, cur *blockCur, in ssa.Instruction, cc *ssa.CallCommon, args []Val, rt types.Type, hint string) Val {
		return Val{T: rt, S: f.c.hasPrefix(args[0].S, args[1].S)}
	}, pure: func(e *SpecEnv, args []Val, rt types.Type) Val { return Val{T: rt, S: e.c.hasPrefix(args[0].S, args[1].S)} }}
	builtinModels["strings.HasSuffix"] = &model{fn: func(f *Frame, cur *blockCur, in ssa.Instruction, cc *ssa.CallCommon, args []Val, rt types.Type, hint string) Val {
		return Val{T: rt, S: f.c.hasSuffix(args[0].S, args[1].S)}
	}, pure: func(e *SpecEnv, args []Val, rt types.Type) Val { return Val{T: rt, S: e.c.hasSuffix(args[0].S, args[1].S)} }}
	// strings.Split / SplitN / Fields: fresh slice of strings, len >= 1 for Split with non-empty sep
	builtinModels["strings.Split"] = &model{fn: func(f *Frame, cur *blockCur, in ssa.Instruction, cc *ssa.CallCommon, args []Val, rt types.Type, hint string) Val {
		c := f.c
		r := f.freshVal(rt, hint)
		cur.assume(f.typeInv(r))
		ref := fmt.Sprintf("(s_ref %s)", r.S)
		facts := []string{fmt.Sprintf("(> %s 0)", ref), fmt.Sprintf("(= (s_off %s) %s)", r.S, c.so.idxLit(0))}
		for _, o := range c.allAllocs {
			facts = append(facts, fmt.Sprintf("(not (= %s %s))", ref, o))
		}
		for _, o := range c.inputRefs {
			facts = append(facts, fmt.Sprintf("(not (= %s %s))", ref, o))
		}
		// Split(s, sep) with sep != "" returns at least one element
		facts = append(facts, fmt.Sprintf("(=> (not (= %s str_empty)) %s)", args[1].S, c.iLe(c.so.idxLit(1), fmt.Sprintf("(s_len %s)", r.S))))
		cur.assume(and(facts...))
		c.assume("strings.Split(s, sep): fresh slice; at least one element when sep is non-empty; element contents unconstrained")
		return r
	}}
	builtinModels["strings.SplitN"] = &model{fn: func(f *Frame, cur *blockCur, in ssa.Instruction, cc *ssa.CallCommon, args []Val, rt types.Type, hint string) Val {
		c := f.c
		r := f.freshVal(rt, hint)
		cur.assume(f.typeInv(r))
		ref := fmt.Sprintf("(s_ref %s)", r.S)
		n := c.toIdx(args[2])
		facts := []string{fmt.Sprintf("(= (s_off %s) %s)", r.S, c.so.idxLit(0))}
		// n > 0: at most n elements; n == 0: nil; sep non-empty and n != 0: at least one
		facts = append(facts, fmt.Sprintf("(=> %s %s)", c.iLt(c.so.idxLit(0), n), c.iLe(fmt.Sprintf("(s_len %s)", r.S), n)))
		facts = append(facts, fmt.Sprintf("(=> (and (not (= %s str_empty)) (not (= %s %s))) %s)", args[1].S, n, c.so.idxLit(0), c.iLe(c.so.idxLit(1), fmt.Sprintf("(s_len %s)", r.S))))
		facts = append(facts, fmt.Sprintf("(=> (= %s %s) (= (s_len %s) %s))", n, c.so.idxLit(0), r.S, c.so.idxLit(0)))
		_ = ref
		cur.assume(and(facts...))
		c.assume("strings.SplitN(s, sep, n): at most n elements when n > 0, at least one when sep is non-empty and n != 0; contents unconstrained")
		return r
	}}
	builtinModels["strings.Fields"] = &model{fn: freshResult("strings.Fields: result unconstrained")}
}

func (c *FuncCtx) hasPrefix(s, p string) string {
	c.needDecl("str_hasprefix", "(declare-fun str_hasprefix (Str Str) Bool)")
	if !c.needed["str_hasprefix_ax"] {
		c.needed["str_hasprefix_ax"] = true
		if c.mode == ModeInt {
			c.axiom("(forall ((s Str) (p Str)) (! (=> (str_hasprefix s p) (and (<= (slen p) (slen s)) (forall ((i Int)) (! (=> (and (<= 0 i) (< i (slen p))) (= (sat s i) (sat p i))) :pattern ((sat s i)))))) :pattern ((str_hasprefix s p))))", "str_hasprefix")
			c.axiom("(forall ((s Str)) (! (str_hasprefix s str_empty) :pattern ((str_hasprefix s str_empty))))", "str_hasprefix")
			c.axiom("(forall ((s Str)) (! (str_hasprefix s s) :pattern ((str_hasprefix s s))))", "str_hasprefix")
		}
	}
	return fmt.Sprintf("(str_hasprefix %s %s)", s, p)
}

func (c *FuncCtx) hasSuffix(s, p string) string {
	c.needDecl("str_hassuffix", "(declare-fun str_hassuffix (Str Str) Bool)")
	if !c.needed["str_hassuffix_ax"] {
		c.needed["str_hassuffix_ax"] = true
		if c.mode == ModeInt {
			c.axiom("(forall ((s Str) (p Str)) (! (=> (str_hassuffix s p) (<= (slen p) (slen s))) :pattern ((str_hassuffix s p))))", "str_hassuffix")
		}
	}
	return fmt.Sprintf("(str_hassuffix %s %s)", s, p)
}

// sync.Pool.Get on a package-level pool: the dynamic type of the result is the type produced by the pool's
// New function (found in the package initialiser) — assumption: Put is only called with values of that type.
func init() {
	builtinModels["(*sync.Pool).Put"] = &model{fn: noop}
	builtinModels["(*sync.Pool).Get"] = &model{fn: func(f *Frame, cur *blockCur, in ssa.Instruction, cc *ssa.CallCommon, args []Val, rt types.Type, hint string) Val {
		r := f.freshVal(rt, hint)
		g, ok := cc.Args[0].(*ssa.Global)
		if !ok {
			return r
		}
		if t := poolElemType(g); t != nil {
			f.c.assume(fmt.Sprintf("sync.Pool %s only holds values of type %s (type produced by its New function; Put call sites not checked)", g.Name(), t))
			cur.assume(fmt.Sprintf("(and (= (i_tag %s) %d) (not (= (i_val %s) 0)))", r.S, f.c.typeID(t), r.S))
		}
		return r
	}}
}

func poolElemType(g *ssa.Global) types.Type {
	initFn := g.Pkg.Func("init")
	if initFn == nil {
		return nil
	}
	for _, b := range initFn.Blocks {
		for _, in := range b.Instrs {
			st, ok := in.(*ssa.Store)
			if !ok {
				continue
			}
			fa, ok := st.Addr.(*ssa.FieldAddr)
			if !ok || fa.X != ssa.Value(g) {
				continue
			}
			var fn *ssa.Function
			switch v := st.Val.(type) {
			case *ssa.Function:
				fn = v
			case *ssa.MakeClosure:
				fn, _ = v.Fn.(*ssa.Function)
			}
			if fn == nil {
				continue
			}
			var found types.Type
			for _, fb := range fn.Blocks {
				for _, fi := range fb.Instrs {
					if ret, ok := fi.(*ssa.Return); ok && len(ret.Results) == 1 {
						if mi, ok := ret.Results[0].(*ssa.MakeInterface); ok {
							if found != nil && !types.Identical(found, mi.X.Type()) {
								return nil
							}
							found = mi.X.Type()
						}
					}
				}
			}
			return found
		}
	}
	return nil
}
