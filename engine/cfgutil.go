package main

import "golang.org/x/tools/go/ssa"

// blockReaches: is there a CFG path from a to b?
func blockReaches(a, b *ssa.BasicBlock) bool {
	seen := map[*ssa.BasicBlock]bool{}
	stack := []*ssa.BasicBlock{a}
	for len(stack) > 0 {
		x := stack[len(stack)-1]
		stack = stack[:len(stack)-1]
		if x == b {
			return true
		}
		if seen[x] {
			continue
		}
		seen[x] = true
		stack = append(stack, x.Succs...)
	}
	return false
}
