package main

import (
	"fmt"
	"go/types"
)

// strOfByte: the one-byte string whose byte is the term b (of the byte sort).
func (c *FuncCtx) strOfByte(b string) string {
	bs := c.so.sortOf(types.Typ[types.Byte])
	c.needDecl("str_of_byte", fmt.Sprintf("(declare-fun str_of_byte (%s) Str)", bs))
	if !c.needed["str_of_byte_ax"] {
		c.needed["str_of_byte_ax"] = true
		// the byte is recovered only for arguments that ARE bytes (an unguarded axiom contradicts 0 <= sat < 256)
		if c.mode == ModeInt {
			c.axiom(fmt.Sprintf("(forall ((b %s)) (! (and (= (slen (str_of_byte b)) %s) (=> (and (<= 0 b) (< b 256)) (= (sat (str_of_byte b) %s) b))) :pattern ((str_of_byte b))))", bs, c.so.idxLit(1), c.so.idxLit(0)), "str_of_byte")
		} else {
			c.axiom(fmt.Sprintf("(forall ((b %s)) (! (and (= (slen (str_of_byte b)) %s) (= (sat (str_of_byte b) %s) b)) :pattern ((str_of_byte b))))", bs, c.so.idxLit(1), c.so.idxLit(0)), "str_of_byte")
		}
	}
	return fmt.Sprintf("(str_of_byte %s)", b)
}
