package main

// Syntactic frame inference for swept (safety-only) contracts: a function "modifies nothing" when every store it
// performs goes to an object it created itself (local variable, make, append of a local slice, new map) and every
// function it calls is of the same kind. A function that writes only through some of its own parameters (setString
// on its receiver, say) is harmless when its callers pass objects they created themselves. Such functions are
// given an empty modifies clause instead of `modifies *`, so their callers keep what they know about the heap.
// The inference is recorded in the evidence as an assumption of the translator (it is a conservative syntactic
// check computed as a least fixpoint over the repository's call graph, not a solver obligation).

import (
	"go/token"
	"go/types"
	"strings"

	"golang.org/x/tools/go/ssa"
)

type frameSummary struct {
	bad    bool         // writes foreign memory / calls unknown code / concurrency
	writes map[int]bool // parameter indices whose pointee (or backing array / map) may be written
	deep   map[int]bool // parameter indices p where memory reached through a value LOADED from *p may be written ((*p)[*])
}

type directInfo struct{ bad bool }

var directMemo = map[*ssa.Function]*directInfo{}

func (e *Engine) moduleFunc(fn *ssa.Function) bool {
	pk := fn.Pkg
	for p := fn.Parent(); pk == nil && p != nil; p = p.Parent() {
		pk = p.Pkg
	}
	return pk != nil && strings.HasPrefix(pk.Pkg.Path(), "github.com/redis/rueidis")
}

func (e *Engine) computeSummaries() {
	if e.summaries != nil {
		return
	}
	e.summaries = map[*ssa.Function]*frameSummary{}
	var fns []*ssa.Function
	for fn := range ssautilAllFunctions(e.prog) {
		if fn != nil && len(fn.Blocks) > 0 && e.moduleFunc(fn) {
			fns = append(fns, fn)
			e.summaries[fn] = &frameSummary{writes: map[int]bool{}, deep: map[int]bool{}}
		}
	}
	for changed := true; changed; {
		changed = false
		for _, fn := range fns {
			s := e.summaries[fn]
			if s.bad {
				continue
			}
			nb, nw, nd := e.summarise(fn)
			if nb {
				s.bad = true
				changed = true
				continue
			}
			for i := range nw {
				if !s.writes[i] {
					s.writes[i] = true
					changed = true
				}
			}
			for i := range nd {
				if !s.deep[i] {
					s.deep[i] = true
					changed = true
				}
			}
		}
	}
	for fn, s := range e.summaries {
		directMemo[fn] = &directInfo{bad: s.bad}
	}
}

// inferNoMods: fn (transitively) writes only memory it created itself.
func (e *Engine) inferNoMods(fn *ssa.Function) bool {
	e.computeSummaries()
	s := e.summaries[fn]
	return s != nil && !s.bad && len(s.writes) == 0 && len(s.deep) == 0
}

// classify the root of a written object: "local", param index (>=0), or foreign (-2)
func classifyRoot(fn *ssa.Function, v ssa.Value, seen map[ssa.Value]bool) (local bool, params []int, foreign bool) {
	if v == nil {
		return false, nil, true
	}
	if seen[v] {
		return true, nil, false
	}
	seen[v] = true
	switch x := v.(type) {
	case *ssa.Alloc, *ssa.MakeSlice, *ssa.MakeMap:
		return true, nil, false
	case *ssa.Const:
		return true, nil, false
	case *ssa.Parameter:
		for i, p := range fn.Params {
			if p == x {
				return false, []int{i}, false
			}
		}
		return false, nil, true
	case *ssa.Slice:
		return classifyRoot(fn, sliceBase(x.X), seen)
	case *ssa.Phi:
		allLocal := true
		var ps []int
		for _, e := range x.Edges {
			l, p, f := classifyRoot(fn, e, seen)
			if f {
				return false, nil, true
			}
			if !l {
				allLocal = false
			}
			ps = append(ps, p...)
		}
		return allLocal && len(ps) == 0, ps, false
	case *ssa.Call:
		if b, ok := x.Call.Value.(*ssa.Builtin); ok && b.Name() == "append" {
			return classifyRoot(fn, x.Call.Args[0], seen)
		}
	case *ssa.Convert:
		if _, ok := x.Type().Underlying().(*types.Slice); ok && isString(x.X.Type()) {
			return true, nil, false
		}
	case *ssa.FieldAddr, *ssa.IndexAddr:
		return classifyRoot(fn, storeRoot(v), seen)
	case *ssa.UnOp:
		// a value loaded through a pointer parameter (e.g. the slice *p): memory one level below the parameter,
		// reported as deepParam+i. Loads from anything else are foreign.
		if x.Op == token.MUL {
			l, ps, f := classifyRoot(fn, storeRoot(x.X), seen)
			if f || l || len(ps) == 0 {
				return false, nil, true
			}
			var out []int
			for _, p := range ps {
				if p >= deepParam {
					return false, nil, true
				}
				out = append(out, deepParam+p)
			}
			return false, out, false
		}
	}
	return false, nil, true
}

const deepParam = 1000

// sliceBase: the object a slicing expression is taken from
func sliceBase(v ssa.Value) ssa.Value {
	if _, ok := v.Type().Underlying().(*types.Pointer); ok {
		return storeRoot(v) // pointer to array
	}
	return v
}

func (e *Engine) summarise(fn *ssa.Function) (bad bool, writes, deep map[int]bool) {
	writes = map[int]bool{}
	deep = map[int]bool{}
	calleeDeep := false // the callee writes one level below what its parameter designates
	note := func(v ssa.Value) bool {
		l, ps, f := classifyRoot(fn, v, map[ssa.Value]bool{})
		if f {
			return false
		}
		_ = l
		for _, p := range ps {
			switch {
			case p >= deepParam && calleeDeep:
				return false // two levels below a parameter: not tracked
			case p >= deepParam:
				deep[p-deepParam] = true
			case calleeDeep:
				deep[p] = true
			default:
				writes[p] = true
			}
		}
		return true
	}
	for _, b := range fn.Blocks {
		for _, in := range b.Instrs {
			switch x := in.(type) {
			case *ssa.Store:
				if !note(storeRoot(x.Addr)) {
					return true, nil, nil
				}
			case *ssa.MapUpdate:
				if !note(x.Map) {
					return true, nil, nil
				}
			case *ssa.Send, *ssa.Go, *ssa.Defer, *ssa.Select:
				return true, nil, nil
			case *ssa.Call:
				cc := x.Common()
				if b, ok := cc.Value.(*ssa.Builtin); ok {
					switch b.Name() {
					case "append", "copy":
						if !note(cc.Args[0]) {
							return true, nil, nil
						}
					case "delete", "clear":
						if !note(cc.Args[0]) {
							return true, nil, nil
						}
					case "close":
						return true, nil, nil
					}
					continue
				}
				callee := cc.StaticCallee()
				if callee == nil {
					return true, nil, nil
				}
				name := fullName(callee)
				if pureExternal(name) {
					continue
				}
				if strings.HasPrefix(name, "(*sync/atomic.") {
					continue // receivers of atomic methods: value unconstrained in the model, nothing else written
				}
				if m, ok := builtinModels[name]; ok {
					if m.mods != nil ||strings.Contains(name, "sync.Cond") || strings.Contains(name, "sync.Pool") {
						return true, nil, nil
					}
					continue
				}
				if con := e.contractFor(callee); con != nil && !con.Swept {
					if con.ModAll {
						return true, nil, nil
					}
					// `modifies p...`: the callee writes what its parameter p designates
					for _, item := range con.Modifies {
						calleeDeep = strings.HasPrefix(item, "(*")
						root := strings.TrimPrefix(strings.TrimPrefix(item, "(*"), "*")
						root = strings.Replace(root, ")", "", 1)
						if i := strings.IndexAny(root, ".["); i >= 0 {
							root = root[:i]
						}
						found := false
						for pi, p := range callee.Params {
							if p.Name() == root && pi < len(cc.Args) {
								found = true
								a := cc.Args[pi]
								var r ssa.Value = a
								if _, isPtr := a.Type().Underlying().(*types.Pointer); isPtr {
									r = storeRoot(a)
								}
								ok := note(r)
								calleeDeep = false
								if !ok {
									return true, nil, nil
								}
							}
						}
						calleeDeep = false
						if !found {
							return true, nil, nil
						}
					}
					continue
				}
				cs := e.summaries[callee]
				if cs == nil || cs.bad {
					return true, nil, nil
				}
				for i := range cs.writes {
					if i >= len(cc.Args) {
						return true, nil, nil
					}
					a := cc.Args[i]
					// the callee writes what its i-th parameter designates: a pointer, slice or map
					var root ssa.Value = a
					if _, isPtr := a.Type().Underlying().(*types.Pointer); isPtr {
						root = storeRoot(a)
					}
					if !note(root) {
						return true, nil, nil
					}
				}
				for i := range cs.deep {
					if i >= len(cc.Args) {
						return true, nil, nil
					}
					a := cc.Args[i]
					var root ssa.Value = a
					if _, isPtr := a.Type().Underlying().(*types.Pointer); isPtr {
						root = storeRoot(a)
					}
					calleeDeep = true
					ok := note(root)
					calleeDeep = false
					if !ok {
						return true, nil, nil
					}
				}
			}
		}
	}
	return false, writes, deep
}

// resultIsLocal: on every return path the i-th result is a slice rooted in the function's own allocations
// (make, append of such a slice, nil).
func resultIsLocal(fn *ssa.Function, i int) bool {
	found := false
	for _, b := range fn.Blocks {
		for _, in := range b.Instrs {
			ret, ok := in.(*ssa.Return)
			if !ok || i >= len(ret.Results) {
				continue
			}
			found = true
			l, ps, f := classifyRoot(fn, ret.Results[i], map[ssa.Value]bool{})
			if f || !l || len(ps) > 0 {
				return false
			}
		}
	}
	return found
}
