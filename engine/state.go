package main

// Symbolic values, pointers and the (persistent, lazily resolved) heap state.

import (
	"fmt"
	"go/types"
	"strings"

	"golang.org/x/tools/go/ssa"
)

type PathEl struct {
	Field int    // >=0: struct field index
	Index string // non-empty: array index term (Idx sort)
	T     types.Type // type after this selection
}

// Ptr is a pointer whose provenance is known statically: a root object
// reference plus a path of field / index selections.
type Ptr struct {
	Root    string     // SMT Int term: reference of the root object
	Obj     types.Type // type of the root object (struct, array, or other)
	ArrElem types.Type // non-nil: root is an array / slice backing store of this element type
	Path    []PathEl
}

type Closure struct {
	Fn       *ssa.Function
	Bindings []Val
}

type Val struct {
	T   types.Type
	S   string // SMT term (for pointers with P==nil: opaque reference)
	P   *Ptr
	Tup []Val
	Clo *Closure
	Arr string // spec functions: contents of the backing array a slice-typed parameter was passed with
}

func (v Val) isTuple() bool { return v.Tup != nil }

// ---------------------------------------------------------------------------

type stateKind int

const (
	stBase stateKind = iota
	stDerived
	stJoin
	stLoop
	stParam // the body of a spec function: every heap it reads becomes a hidden parameter (speceval.go declareSpecFn)
)

type joinEdge struct {
	cond string
	st   *State
}

type State struct {
	c     *FuncCtx
	kind  stateKind
	epoch int
	// derived
	parent *State
	key    string
	term   string
	// join
	edges []joinEdge
	// loop head
	entry  *State
	mod    map[string]bool
	modAll bool
	roots  map[string][]string // loop head: per key, the only objects written in the loop
	cache  map[string]string
	id     int
	used   *[]HeapKey // stParam: heaps read so far, in order of first use
	immutFrom *State  // stBase made by a havoc: the state before it (immutable fields keep their values, immutable.go)
	inl       bool    // created while evaluating a specification under binders: its terms may mention bound variables
	keepFrom  *State  // stBase made by a call into an opaque package: field heaps of types that package cannot name
	keepPkg   *types.Package // ... (it does not import their declaring package) keep the value they have in keepFrom
}

func (c *FuncCtx) newBase() *State {
	c.epoch++
	c.stateID++
	return &State{c: c, kind: stBase, epoch: c.epoch, cache: map[string]string{}, id: c.stateID}
}

func (s *State) get(k HeapKey) string {
	if t, ok := s.cache[k.Name]; ok {
		return t
	}
	s.c.heapKeys[k.Name] = k
	if !s.inl && s.c.inlineDefs > 0 {
		// a state of the program (not one built inside the specification being evaluated) never mentions bound
		// variables: its heaps get ordinary global names even when the clause using them sits under a binder
		saved := s.c.inlineDefs
		s.c.inlineDefs = 0
		defer func() { s.c.inlineDefs = saved }()
	}
	var t string
	switch s.kind {
	case stParam:
		t = k.Name + "!hp"
		*s.used = append(*s.used, k)
	case stBase:
		if s.keepFrom != nil && k.Pkg != "" && !pkgCanName(s.keepPkg, k.Pkg) {
			// the called package cannot select fields of this struct type (it does not import the declaring package):
			// its code cannot store to them (reflection / unsafe aside, listed as an assumption)
			t = s.keepFrom.get(k)
			break
		}
		t = s.c.declare(fmt.Sprintf("%s@%d", k.Name, s.epoch), k.Sort)
		s.c.byteHeapAxiom(k, t, false)
		if s.immutFrom != nil && s.c.immutableKey(k.Name) {
			s.c.immutablePreserved(k, t, s.immutFrom)
		}
		if k.Ref != "" {
			s.c.heapRefAxiom(k, t, false, s.get(allocKey))
		} else if k.Name == allocKey.Name {
			s.c.axiom(fmt.Sprintf("(>= %s 0)", t), t)
		}
	case stDerived:
		if s.key == k.Name {
			t = s.term
		} else {
			t = s.parent.get(k)
		}
	case stJoin:
		var ts []string
		same := true
		for _, e := range s.edges {
			x := e.st.get(k)
			if len(ts) > 0 && x != ts[0] {
				same = false
			}
			ts = append(ts, x)
		}
		if same {
			t = ts[0]
		} else {
			term := ts[len(ts)-1]
			for i := len(ts) - 2; i >= 0; i-- {
				term = fmt.Sprintf("(ite %s %s %s)", s.edges[i].cond, ts[i], term)
			}
			t = s.c.define(fmt.Sprintf("%s@j%d", k.Name, s.id), k.Sort, term)
		}
	case stLoop:
		if rs, ok := s.roots[k.Name]; ok && !s.modAll && s.mod[k.Name] {
			// only the cells of the listed objects are havocked
			term := s.entry.get(k)
			cellSort := strings.TrimSuffix(strings.TrimPrefix(k.Sort, "(Array Int "), ")")
			for i, r := range rs {
				fresh := s.c.declare(fmt.Sprintf("%s@L%d_c%d", k.Name, s.epoch, i), cellSort)
				s.c.byteHeapAxiom(k, fresh, true)
				if k.Ref != "" {
					s.c.heapRefAxiom(k, fresh, true, s.get(allocKey))
				}
				term = fmt.Sprintf("(store %s %s %s)", term, r, fresh)
			}
			t = s.c.define(fmt.Sprintf("%s@L%d", k.Name, s.epoch), k.Sort, term)
		} else if k.Name == allocKey.Name {
			// the watermark at a loop head: unknown, but not below its value before the loop
			t = s.c.declare(fmt.Sprintf("%s@L%d", k.Name, s.epoch), k.Sort)
			s.c.axiom(fmt.Sprintf("(>= %s %s)", t, s.entry.get(k)), t)
		} else if strings.HasPrefix(k.Name, "G_calls_") && !s.mod[k.Name] {
			// the verifier's own call counters: only a counted call inside the loop moves them, unknown code cannot
			t = s.entry.get(k)
		} else if s.modAll || s.mod[k.Name] {
			t = s.c.declare(fmt.Sprintf("%s@L%d", k.Name, s.epoch), k.Sort)
			if strings.HasPrefix(k.Name, "G_calls_") {
				// a call counter at a loop head: unknown, but it only ever counts up from its value before the loop
				s.c.axiom(fmt.Sprintf("(>= %s %s)", t, s.entry.get(k)), t)
			}
			s.c.byteHeapAxiom(k, t, false)
			if s.c.immutableKey(k.Name) {
				s.c.immutablePreserved(k, t, s.entry)
			}
			if k.Ref != "" {
				s.c.heapRefAxiom(k, t, false, s.get(allocKey))
			}
		} else {
			t = s.entry.get(k)
		}
	}
	s.cache[k.Name] = t
	return t
}

func (s *State) set(k HeapKey, term string) *State {
	s.c.heapKeys[k.Name] = k
	s.c.stateID++
	name := s.c.define(fmt.Sprintf("%s@s%d", k.Name, s.c.stateID), k.Sort, term)
	return &State{c: s.c, kind: stDerived, parent: s, key: k.Name, term: name, cache: map[string]string{}, id: s.c.stateID, inl: s.c.inlineDefs > 0}
}

func (c *FuncCtx) joinStates(edges []joinEdge) *State {
	if len(edges) == 1 {
		return edges[0].st
	}
	c.stateID++
	return &State{c: c, kind: stJoin, edges: edges, cache: map[string]string{}, id: c.stateID, inl: c.inlineDefs > 0}
}

func (c *FuncCtx) loopState(entry *State, mod map[string]bool, modAll bool, roots map[string][]string) *State {
	c.epoch++
	c.stateID++
	return &State{c: c, kind: stLoop, epoch: c.epoch, entry: entry, mod: mod, modAll: modAll, roots: roots, cache: map[string]string{}, id: c.stateID}
}

// ---------------------------------------------------------------------------
// Pointer load / store

func (c *FuncCtx) rootHeap(p *Ptr) (HeapKey, []PathEl, string) {
	// returns heap key, remaining path, and the term selecting the root cell
	if p.ArrElem != nil {
		return c.so.heapArr(p.ArrElem), p.Path, ""
	}
	if st, ok := p.Obj.Underlying().(*types.Struct); ok && len(p.Path) > 0 && p.Path[0].Index == "" {
		return c.so.heapField(p.Obj, st, p.Path[0].Field), p.Path[1:], ""
	}
	return c.so.heapObj(p.Obj), p.Path, ""
}

func (c *FuncCtx) selPath(base string, baseT types.Type, path []PathEl) string {
	t := base
	cur := baseT
	for _, el := range path {
		if el.Index != "" {
			t = fmt.Sprintf("(select %s %s)", t, el.Index)
		} else {
			st := cur.Underlying().(*types.Struct)
			sn := c.so.structSort(cur, st)
			t = fmt.Sprintf("(%s %s)", c.so.fieldSel(sn, st, el.Field), t)
		}
		cur = el.T
	}
	return t
}

func (c *FuncCtx) updPath(base string, baseT types.Type, path []PathEl, v string) string {
	if len(path) == 0 {
		return v
	}
	el := path[0]
	if el.Index != "" {
		inner := c.updPath(fmt.Sprintf("(select %s %s)", base, el.Index), el.T, path[1:], v)
		return fmt.Sprintf("(store %s %s %s)", base, el.Index, inner)
	}
	st := baseT.Underlying().(*types.Struct)
	sn := c.so.structSort(baseT, st)
	var fs []string
	for i := 0; i < st.NumFields(); i++ {
		sel := fmt.Sprintf("(%s %s)", c.so.fieldSel(sn, st, i), base)
		if i == el.Field {
			fs = append(fs, c.updPath(sel, el.T, path[1:], v))
		} else {
			fs = append(fs, sel)
		}
	}
	return fmt.Sprintf("(mk_%s %s)", sn, strings.Join(fs, " "))
}

// load reads the value a pointer designates in state s.
func (c *FuncCtx) load(s *State, p *Ptr, t types.Type) string {
	if p.ArrElem != nil {
		h := s.get(c.so.heapArr(p.ArrElem))
		arrT := types.NewArray(p.ArrElem, 0)
		_ = arrT
		base := fmt.Sprintf("(select %s %s)", h, p.Root)
		if len(p.Path) == 0 {
			return base // whole array value
		}
		// first path element must be an index
		first := p.Path[0]
		cell := fmt.Sprintf("(select %s %s)", base, first.Index)
		return c.selPath(cell, first.T, p.Path[1:])
	}
	if st, ok := p.Obj.Underlying().(*types.Struct); ok {
		if len(p.Path) == 0 {
			// whole struct: assemble from field heaps
			sn := c.so.structSort(p.Obj, st)
			if st.NumFields() == 0 {
				return "mk_" + sn
			}
			var fs []string
			for i := 0; i < st.NumFields(); i++ {
				h := s.get(c.so.heapField(p.Obj, st, i))
				fs = append(fs, fmt.Sprintf("(select %s %s)", h, p.Root))
			}
			return fmt.Sprintf("(mk_%s %s)", sn, strings.Join(fs, " "))
		}
		first := p.Path[0]
		h := s.get(c.so.heapField(p.Obj, st, first.Field))
		cell := fmt.Sprintf("(select %s %s)", h, p.Root)
		return c.selPath(cell, first.T, p.Path[1:])
	}
	h := s.get(c.so.heapObj(p.Obj))
	cell := fmt.Sprintf("(select %s %s)", h, p.Root)
	return c.selPath(cell, p.Obj, p.Path)
}

// store writes v through pointer p and returns the new state.
func (c *FuncCtx) store(s *State, p *Ptr, v string) *State {
	if p.ArrElem != nil {
		k := c.so.heapArr(p.ArrElem)
		h := s.get(k)
		base := fmt.Sprintf("(select %s %s)", h, p.Root)
		var nv string
		if len(p.Path) == 0 {
			nv = v
		} else {
			nv = c.updPath(base, types.NewArray(p.ArrElem, 0), p.Path, v)
		}
		return s.set(k, fmt.Sprintf("(store %s %s %s)", h, p.Root, nv))
	}
	if st, ok := p.Obj.Underlying().(*types.Struct); ok {
		if len(p.Path) == 0 {
			sn := c.so.structSort(p.Obj, st)
			ns := s
			for i := 0; i < st.NumFields(); i++ {
				k := c.so.heapField(p.Obj, st, i)
				h := ns.get(k)
				ns = ns.set(k, fmt.Sprintf("(store %s %s (%s %s))", h, p.Root, c.so.fieldSel(sn, st, i), v))
			}
			return ns
		}
		first := p.Path[0]
		k := c.so.heapField(p.Obj, st, first.Field)
		h := s.get(k)
		cell := fmt.Sprintf("(select %s %s)", h, p.Root)
		nv := c.updPath(cell, first.T, p.Path[1:], v)
		return s.set(k, fmt.Sprintf("(store %s %s %s)", h, p.Root, nv))
	}
	k := c.so.heapObj(p.Obj)
	h := s.get(k)
	cell := fmt.Sprintf("(select %s %s)", h, p.Root)
	nv := c.updPath(cell, p.Obj, p.Path, v)
	return s.set(k, fmt.Sprintf("(store %s %s %s)", h, p.Root, nv))
}

// heapKeysOf returns the heap keys a store through p would touch.
func (c *FuncCtx) heapKeysOfPtr(p *Ptr) []HeapKey {
	if p.ArrElem != nil {
		return []HeapKey{c.so.heapArr(p.ArrElem)}
	}
	if st, ok := p.Obj.Underlying().(*types.Struct); ok {
		if len(p.Path) == 0 {
			var ks []HeapKey
			for i := 0; i < st.NumFields(); i++ {
				ks = append(ks, c.so.heapField(p.Obj, st, i))
			}
			return ks
		}
		return []HeapKey{c.so.heapField(p.Obj, st, p.Path[0].Field)}
	}
	return []HeapKey{c.so.heapObj(p.Obj)}
}

// ptrOf converts a pointer-typed Val into a Ptr (opaque references become
// root pointers of their element type).
func (c *FuncCtx) ptrOf(v Val) *Ptr {
	if v.P != nil {
		return v.P
	}
	pt, ok := v.T.Underlying().(*types.Pointer)
	if !ok {
		return &Ptr{Root: v.S, Obj: v.T}
	}
	el := pt.Elem()
	if at, ok := el.Underlying().(*types.Array); ok {
		return &Ptr{Root: v.S, Obj: el, ArrElem: at.Elem()}
	}
	return &Ptr{Root: v.S, Obj: el}
}

// ptrTerm gives an Int term identifying the address.
func (c *FuncCtx) ptrTerm(v Val) string {
	if v.P == nil {
		return v.S
	}
	if len(v.P.Path) == 0 {
		return v.P.Root
	}
	t := v.P.Root
	for _, el := range v.P.Path {
		if el.Index != "" {
			c.needDecl("addr_idx", "(declare-fun addr_idx (Int "+c.so.idxSort()+") Int)")
			t = fmt.Sprintf("(addr_idx %s %s)", t, el.Index)
		} else {
			c.needDecl("addr_fld", "(declare-fun addr_fld (Int Int) Int)")
			if !c.needed["addr_fld_ax"] {
				c.needed["addr_fld_ax"] = true
				// the address of a field of an object is nil only if the object pointer is
				c.axiom("(forall ((p Int) (i Int)) (! (=> (not (= p 0)) (not (= (addr_fld p i) 0))) :pattern ((addr_fld p i))))", "addr_fld")
			}
			t = fmt.Sprintf("(addr_fld %s %d)", t, el.Field)
		}
	}
	return t
}

// pkgCanName: package p is, or (transitively) imports, the package with the given path.
func pkgCanName(p *types.Package, path string) bool {
	if p == nil {
		return true
	}
	seen := map[*types.Package]bool{}
	var walk func(q *types.Package) bool
	walk = func(q *types.Package) bool {
		if q.Path() == path {
			return true
		}
		if seen[q] {
			return false
		}
		seen[q] = true
		for _, im := range q.Imports() {
			if walk(im) {
				return true
			}
		}
		return false
	}
	return walk(p)
}
