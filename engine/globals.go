package main

// Read-only package-level tables: `//@ uses-global NAME` in a function contract makes the verifier
//   (1) check syntactically that NAME is written only by the package initialiser (no store through it, no address
//       taken, not sliced, not passed anywhere) in the whole package, and
//   (2) assume at function entry that NAME holds the constants stored by the initialiser.

import (
	"fmt"
	"go/constant"
	"go/types"
	"strings"

	"golang.org/x/tools/go/ssa"
)

// globalInit extracts index -> constant for an array global initialised element-wise with constants in init.
func globalInitArray(g *ssa.Global) (map[int64]constant.Value, error) {
	initFn := g.Pkg.Func("init")
	if initFn == nil {
		return nil, fmt.Errorf("no init function")
	}
	vals := map[int64]constant.Value{}
	for _, b := range initFn.Blocks {
		for _, in := range b.Instrs {
			st, ok := in.(*ssa.Store)
			if !ok {
				continue
			}
			ia, ok := st.Addr.(*ssa.IndexAddr)
			if !ok || ia.X != ssa.Value(g) {
				if storeRoot(st.Addr) == ssa.Value(g) {
					return nil, fmt.Errorf("initialiser of %s is not a plain element-wise constant store", g.Name())
				}
				continue
			}
			k, ok1 := ia.Index.(*ssa.Const)
			v, ok2 := st.Val.(*ssa.Const)
			if !ok1 || !ok2 || k.Value == nil || v.Value == nil {
				return nil, fmt.Errorf("initialiser of %s stores a non-constant", g.Name())
			}
			idx, _ := constant.Int64Val(k.Value)
			vals[idx] = v.Value
		}
	}
	return vals, nil
}

// globalReadOnly checks that no function of the package other than init can write g.
func globalReadOnly(e *Engine, g *ssa.Global) error {
	for fn := range ssautilAllFunctions(e.prog) {
		if fn == nil {
			continue
		}
		pk := fn.Pkg
		for p := fn.Parent(); pk == nil && p != nil; p = p.Parent() {
			pk = p.Pkg
		}
		if pk != g.Pkg && (g.Object() == nil || !g.Object().Exported()) {
			continue // unexported globals are only reachable from their own package
		}
		if fn.Name() == "init" && fn.Pkg == g.Pkg {
			continue
		}
		for _, b := range fn.Blocks {
			for _, in := range b.Instrs {
				for _, op := range in.Operands(nil) {
					if *op != ssa.Value(g) {
						continue
					}
					switch x := in.(type) {
					case *ssa.IndexAddr:
						// allowed if the resulting address is only loaded from
						if refs := x.Referrers(); refs != nil {
							for _, r := range *refs {
								switch r.(type) {
								case *ssa.UnOp, *ssa.DebugRef:
								default:
									return fmt.Errorf("%s: element address of %s used by %T in %s", e.posString(r.Pos()), g.Name(), r, fn.Name())
								}
							}
						}
					case *ssa.UnOp, *ssa.DebugRef:
					default:
						return fmt.Errorf("%s: %s used by %T in %s", e.posString(in.Pos()), g.Name(), in, fn.Name())
					}
				}
			}
		}
	}
	return nil
}

// assumeGlobals returns facts about the entry state for every `uses-global` of the contract.
func (f *Frame) assumeGlobals(st *State) []string {
	c := f.c
	if f.con == nil {
		return nil
	}
	var facts []string
	for _, name := range strings.Split(f.con.Options["uses-global"], ",") {
		name = strings.TrimSpace(name)
		if name == "" {
			continue
		}
		pk := f.fn.Pkg
		g, _ := pk.Members[name].(*ssa.Global)
		if g == nil {
			panic(unsupportedErr{"uses-global: no package-level variable " + name})
		}
		if err := globalReadOnly(c.eng, g); err != nil {
			panic(unsupportedErr{"uses-global " + name + ": not read-only: " + err.Error()})
		}
		vals, err := globalInitArray(g)
		if err != nil {
			panic(unsupportedErr{"uses-global " + name + ": " + err.Error()})
		}
		at, ok := g.Type().(*types.Pointer).Elem().Underlying().(*types.Array)
		if !ok {
			panic(unsupportedErr{"uses-global " + name + ": not an array"})
		}
		gv := f.val(g)
		arr := fmt.Sprintf("(select %s %s)", st.get(c.so.heapArr(at.Elem())), gv.P.Root)
		for i := int64(0); i < at.Len(); i++ {
			v, has := vals[i]
			var term string
			if has {
				term = c.constTerm(v, at.Elem())
			} else {
				term = c.so.zero(at.Elem())
			}
			facts = append(facts, fmt.Sprintf("(= (select %s %s) %s)", arr, c.so.idxLit(i), term))
		}
		c.assume(fmt.Sprintf("package-level table %s is read-only after init (checked syntactically over the package) and holds its initialiser's %d constants", name, len(vals)))
	}
	return facts
}
