package main

// Translation of one SSA function into passive-form SMT definitions plus obligations.

import (
	"fmt"
	"go/constant"
	"go/token"
	"go/types"
	"sort"
	"strings"

	"golang.org/x/tools/go/ssa"
)

type loopInfo struct {
	ordinal int
	header  *ssa.BasicBlock
	body    map[*ssa.BasicBlock]bool
	backs   []*ssa.BasicBlock // sources of back edges
	invs    []*Clause
}

type deferred struct {
	call  *ssa.CallCommon
	block *ssa.BasicBlock
	instr *ssa.Defer
}

type Frame struct {
	relaxedLocals bool // set while a call-site assertion is evaluated (contract.go lookupLocal)
	c      *FuncCtx
	fn     *ssa.Function
	con    *Contract
	vals   map[ssa.Value]Val
	in     map[*ssa.BasicBlock]*State
	reach  map[*ssa.BasicBlock]string // reach predicate at block entry
	outSt  map[*ssa.BasicBlock]*State
	outRe  map[*ssa.BasicBlock]string
	edgeC  map[[2]int]string // edge condition pred->succ
	loops  map[*ssa.BasicBlock]*loopInfo
	entry  *State // state at function entry (for old())
	params []Val
	free   []Val
	depth  int
	inline bool
	prefix string // obligation name prefix
	props  []string
	defers []deferred
	// inline results
	rets     []retPoint
	allocs   []string // fresh refs allocated in this frame
	locals   map[string][]localDef
	failed   error
	safetyOn bool
	entryReach string
	hdrPhis map[*ssa.BasicBlock]map[*ssa.Phi]Val
	// atentry(E) in loop invariants: the state (and the entry values of the header phis) in which each loop is entered
	loopEntry map[*ssa.BasicBlock]*loopEntryCtx
	curLoop   *ssa.BasicBlock // header of the loop whose invariant is being evaluated
	callerFrame *Frame
	panicPaths []string
	prefixOverride string
	suppress bool // safety obligations of this (inlined) frame are proved in the callee's own verification
}

type retPoint struct {
	reach string
	st    *State
	vals  []Val
}

type localDef struct {
	block *ssa.BasicBlock
	idx   int
	val   ssa.Value
	addr  bool
	obj   types.Object
}

// defsOf: the recorded definitions of the source variable `name`. When a parameter or named result has that name,
// variables of inner scopes that shadow it (`if err, ok := err.(*T); ok {`) are ignored: a contract means the parameter.
func (f *Frame) defsOf(name string) []localDef {
	all := f.locals[name]
	if f.fn == nil || len(all) == 0 {
		return all
	}
	var owner types.Object
	for _, p := range f.fn.Params {
		if p.Name() == name && p.Object() != nil {
			owner = p.Object()
		}
	}
	if owner == nil {
		rs := f.fn.Signature.Results()
		for i := 0; i < rs.Len(); i++ {
			if rs.At(i).Name() == name {
				owner = rs.At(i)
			}
		}
	}
	if owner == nil {
		return all
	}
	var out []localDef
	for _, d := range all {
		if d.obj == owner {
			out = append(out, d)
		}
	}
	return out
}

func (c *FuncCtx) newFrame(fn *ssa.Function, con *Contract) *Frame {
	return &Frame{c: c, fn: fn, con: con, vals: map[ssa.Value]Val{}, in: map[*ssa.BasicBlock]*State{}, reach: map[*ssa.BasicBlock]string{},
		outSt: map[*ssa.BasicBlock]*State{}, outRe: map[*ssa.BasicBlock]string{}, edgeC: map[[2]int]string{}, loops: map[*ssa.BasicBlock]*loopInfo{},
		locals: map[string][]localDef{}, hdrPhis: map[*ssa.BasicBlock]map[*ssa.Phi]Val{}}
}

func fnDisplayName(fn *ssa.Function) string {
	// pkgname.Recv.Func style, stable and without line numbers
	name := fn.Name()
	if fn.Parent() != nil {
		return fnDisplayName(fn.Parent()) + "$" + strings.TrimPrefix(name, fn.Parent().Name()+"$")
	}
	pk := ""
	if fn.Pkg != nil {
		pk = fn.Pkg.Pkg.Name() + "."
	}
	if recv := fn.Signature.Recv(); recv != nil {
		t := recv.Type()
		if p, ok := t.(*types.Pointer); ok {
			t = p.Elem()
		}
		if n, ok := t.(*types.Named); ok {
			return pk + n.Obj().Name() + "." + name
		}
	}
	return pk + name
}

// contractName: the key used in contract files: "Recv.Func" / "Func" / "Func$1"
func contractName(fn *ssa.Function) string {
	d := fnDisplayName(fn)
	if fn.Pkg != nil || fn.Parent() != nil {
		if i := strings.Index(d, "."); i >= 0 {
			return d[i+1:]
		}
	}
	return d
}

// ---------------------------------------------------------------------------
// loop discovery

func (f *Frame) findLoops() error {
	fn := f.fn
	dom := func(a, b *ssa.BasicBlock) bool { return a.Dominates(b) }
	for _, b := range fn.Blocks {
		for _, s := range b.Succs {
			if dom(s, b) { // back edge b->s
				li := f.loops[s]
				if li == nil {
					li = &loopInfo{header: s, body: map[*ssa.BasicBlock]bool{s: true}}
					f.loops[s] = li
				}
				li.backs = append(li.backs, b)
				// natural loop body
				stack := []*ssa.BasicBlock{b}
				for len(stack) > 0 {
					x := stack[len(stack)-1]
					stack = stack[:len(stack)-1]
					if li.body[x] {
						continue
					}
					li.body[x] = true
					for _, p := range x.Preds {
						stack = append(stack, p)
					}
				}
			}
		}
	}
	// check reducibility: every retreating edge in RPO must be a back edge found above
	order, idx := f.rpo()
	for _, b := range order {
		for _, s := range b.Succs {
			if idx[s] <= idx[b] && !dom(s, b) {
				return fmt.Errorf("irreducible control flow at block %d", b.Index)
			}
		}
	}
	// ordinals in source order of header position
	var hs []*ssa.BasicBlock
	for h := range f.loops {
		hs = append(hs, h)
	}
	sort.Slice(hs, func(i, j int) bool { return f.loopPos(hs[i]) < f.loopPos(hs[j]) })
	for i, h := range hs {
		f.loops[h].ordinal = i
		if f.con != nil {
			f.loops[h].invs = f.con.Invariants[i]
		}
	}
	return nil
}

func (f *Frame) loopPos(h *ssa.BasicBlock) token.Pos {
	// position of the first instruction with a position in the header, fall back to block index
	best := token.Pos(0)
	li := f.loops[h]
	for b := range li.body {
		for _, in := range b.Instrs {
			switch in.(type) {
			case *ssa.Phi, *ssa.DebugRef:
				continue // carry the position of the variable's declaration, which may be outside the loop
			}
			if p := in.Pos(); p.IsValid() && (best == 0 || p < best) {
				best = p
			}
		}
	}
	if best == 0 {
		return token.Pos(h.Index)
	}
	return best
}

func (f *Frame) rpo() ([]*ssa.BasicBlock, map[*ssa.BasicBlock]int) {
	seen := map[*ssa.BasicBlock]bool{}
	var post []*ssa.BasicBlock
	var dfs func(b *ssa.BasicBlock)
	dfs = func(b *ssa.BasicBlock) {
		seen[b] = true
		for _, s := range b.Succs {
			if !seen[s] && !s.Dominates(b) {
				dfs(s)
			}
		}
		post = append(post, b)
	}
	if len(f.fn.Blocks) > 0 {
		dfs(f.fn.Blocks[0])
	}
	// recover block (Recover) is ignored
	order := make([]*ssa.BasicBlock, 0, len(post))
	for i := len(post) - 1; i >= 0; i-- {
		order = append(order, post[i])
	}
	idx := map[*ssa.BasicBlock]int{}
	for i, b := range order {
		idx[b] = i
	}
	return order, idx
}

// modified heap keys of a loop (syntactic over-approximation). roots[k] lists the SSA values (defined outside
// the loop) whose objects are the only ones written under key k; a nil entry with mod[k] set means "unknown objects".
func (f *Frame) loopMods(li *loopInfo) (map[string]bool, bool, map[string][]ssa.Value) {
	mod := map[string]bool{}
	roots := map[string][]ssa.Value{}
	unknown := map[string]bool{}
	all := false
	addRoot := func(k string, r ssa.Value) {
		if r == nil {
			unknown[k] = true
			return
		}
		if in, ok := r.(ssa.Instruction); ok && in.Block() != nil && li.body[in.Block()] {
			if al, isAlloc := r.(*ssa.Alloc); isAlloc && !escapes(al) {
				// a temporary allocated inside the body that never escapes: fresh in every iteration and dead at the
				// next loop head, so writes to it do not change any object that exists at the head
				if _, has := roots[k]; !has {
					roots[k] = []ssa.Value{}
				}
				return
			}
			unknown[k] = true
			return
		}
		for _, x := range roots[k] {
			if x == r {
				return
			}
		}
		roots[k] = append(roots[k], r)
	}
	for b := range li.body {
		for _, in := range b.Instrs {
			switch x := in.(type) {
			case *ssa.Store:
				r := storeRoot(x.Addr)
				for _, k := range f.staticHeapKeys(x.Addr) {
					mod[k] = true
					addRoot(k, r)
				}
			case *ssa.MapUpdate:
				mt := x.Map.Type().Underlying().(*types.Map)
				for _, k := range []string{f.c.so.heapMapDom(mt.Key(), mt.Elem()).Name, f.c.so.heapMapVal(mt.Key(), mt.Elem()).Name, f.c.so.heapMapLen(mt.Key(), mt.Elem()).Name} {
					mod[k] = true
					addRoot(k, x.Map)
				}
			case *ssa.Next:
				if rng, ok := x.Iter.(*ssa.Range); ok {
					if mt, ok := rng.X.Type().Underlying().(*types.Map); ok {
						k := f.visitedKey(rng, mt).Name
						mod[k] = true
						unknown[k] = true
					}
				}
			case ssa.CallInstruction:
				for _, n := range f.c.trackedCalls() {
					cc := x.Common()
					if f.trackedMatches(n, x, cc, cc.StaticCallee()) {
						k := callsKey(n).Name
						mod[k] = true
						unknown[k] = true
					}
				}
				ks, a := f.callMods(x)
				if a {
					all = true
				}
				for _, k := range ks {
					mod[k] = true
					unknown[k] = true
				}
			}
		}
	}
	for k := range unknown {
		delete(roots, k)
	}
	return mod, all, roots
}

// storeRoot finds the SSA value denoting the root object of an address (nil if unknown).
func storeRoot(addr ssa.Value) ssa.Value {
	switch a := addr.(type) {
	case *ssa.FieldAddr:
		return storeRoot(a.X)
	case *ssa.IndexAddr:
		if _, ok := a.X.Type().Underlying().(*types.Slice); ok {
			return a.X // the slice value: root is its backing array
		}
		return storeRoot(a.X)
	case *ssa.Alloc, *ssa.Parameter, *ssa.FreeVar, *ssa.Global, *ssa.UnOp, *ssa.Call, *ssa.Phi, *ssa.Extract, *ssa.MakeMap, *ssa.Lookup:
		return addr
	}
	return nil
}

// staticHeapKeys determines which heaps a store through addr may touch, from types only.
func (f *Frame) staticHeapKeys(addr ssa.Value) []string {
	so := f.c.so
	switch a := addr.(type) {
	case *ssa.FieldAddr:
		if isRootPtr(a.X) {
			pt := a.X.Type().Underlying().(*types.Pointer).Elem()
			st := pt.Underlying().(*types.Struct)
			return []string{so.heapField(pt, st, a.Field).Name}
		}
		return f.staticHeapKeys(a.X)
	case *ssa.IndexAddr:
		switch t := a.X.Type().Underlying().(type) {
		case *types.Slice:
			return []string{so.heapArr(t.Elem()).Name}
		case *types.Pointer:
			at := t.Elem().Underlying().(*types.Array)
			if isRootPtr(a.X) {
				return []string{so.heapArr(at.Elem()).Name}
			}
			return f.staticHeapKeys(a.X)
		}
	}
	// root pointer
	pt, ok := addr.Type().Underlying().(*types.Pointer)
	if !ok {
		return nil
	}
	el := pt.Elem()
	if at, ok := el.Underlying().(*types.Array); ok {
		return []string{so.heapArr(at.Elem()).Name}
	}
	if st, ok := el.Underlying().(*types.Struct); ok {
		var ks []string
		for i := 0; i < st.NumFields(); i++ {
			ks = append(ks, so.heapField(el, st, i).Name)
		}
		return ks
	}
	return []string{so.heapObj(el).Name}
}

func isRootPtr(v ssa.Value) bool {
	switch v.(type) {
	case *ssa.FieldAddr, *ssa.IndexAddr:
		return false
	}
	return true
}

// ---------------------------------------------------------------------------
// main driver for a frame

type unsupportedErr struct{ msg string }

func (e unsupportedErr) Error() string { return e.msg }

func (f *Frame) unsupported(format string, a ...any) {
	panic(unsupportedErr{fmt.Sprintf(format, a...)})
}

func (f *Frame) run(entryState *State, entryReach string) (err error) {
	defer func() {
		if r := recover(); r != nil {
			if u, ok := r.(unsupportedErr); ok {
				err = u
				return
			}
			panic(r)
		}
	}()
	if len(f.fn.Blocks) == 0 {
		return fmt.Errorf("function %s has no body", f.fn.Name())
	}
	if err := f.findLoops(); err != nil {
		return err
	}
	f.entry = entryState
	f.entryReach = entryReach
	order, _ := f.rpo()
	for _, b := range order {
		f.enterBlock(b, entryState, entryReach)
		f.execBlock(b)
	}
	return nil
}

func (f *Frame) edgeCond(p, b *ssa.BasicBlock) string {
	re := f.outRe[p]
	if re == "" {
		return "false" // predecessor not processed (unreachable)
	}
	ec, ok := f.edgeC[[2]int{p.Index, b.Index}]
	if !ok {
		return re
	}
	return and(re, ec)
}

func (f *Frame) enterBlock(b *ssa.BasicBlock, entryState *State, entryReach string) {
	c := f.c
	if b.Index == 0 {
		f.in[b] = entryState
		f.reach[b] = entryReach
		return
	}
	li := f.loops[b]
	var edges []joinEdge
	var conds []string
	var preds []*ssa.BasicBlock
	for _, p := range b.Preds {
		if li != nil && li.body[p] && p.Dominates(p) && b.Dominates(p) {
			continue // back edge
		}
		if f.outRe[p] == "" {
			continue
		}
		ec := f.edgeCond(p, b)
		if ec == "false" {
			continue
		}
		edges = append(edges, joinEdge{cond: ec, st: f.outSt[p]})
		conds = append(conds, ec)
		preds = append(preds, p)
	}
	if len(edges) == 0 {
		f.in[b] = entryState
		f.reach[b] = "false"
		f.outRe[b] = ""
		return
	}
	st := c.joinStates(edges)
	re := c.define(fmt.Sprintf("%sb%d", f.prefixSym(), b.Index), "Bool", or(conds...))
	// phis
	if li == nil {
		for _, in := range b.Instrs {
			phi, ok := in.(*ssa.Phi)
			if !ok {
				break
			}
			f.vals[phi] = f.mergePhi(phi, b, preds, conds)
		}
		f.in[b] = st
		f.reach[b] = re
		return
	}
	// loop header
	c.stats.loops++
	if len(li.invs) > 0 {
		c.stats.loopsWithInv++
	}
	mod, all, rootVals := f.loopMods(li)
	roots := map[string][]string{}
	for k, rs := range rootVals {
		okAll := true
		var ts []string
		for _, r := range rs {
			v, ok := f.vals[r]
			if !ok {
				if _, isG := r.(*ssa.Global); isG {
					v = f.val(r)
				} else {
					okAll = false
					break
				}
			}
			switch r.Type().Underlying().(type) {
			case *types.Slice:
				ts = append(ts, fmt.Sprintf("(s_ref %s)", v.S))
			case *types.Map:
				ts = append(ts, v.S)
			default:
				p := c.ptrOf(v)
				if len(p.Path) > 0 {
					okAll = false
				}
				ts = append(ts, p.Root)
			}
		}
		if okAll {
			roots[k] = ts
		}
	}
	// 1. invariant on entry: evaluate with phi := value from entry preds
	entryPhis := map[*ssa.Phi]Val{}
	for _, in := range b.Instrs {
		phi, ok := in.(*ssa.Phi)
		if !ok {
			break
		}
		entryPhis[phi] = f.mergePhi(phi, b, preds, conds)
	}
	if f.loopEntry == nil {
		f.loopEntry = map[*ssa.BasicBlock]*loopEntryCtx{}
	}
	f.loopEntry[b] = &loopEntryCtx{st: st, phis: entryPhis}
	f.curLoop = b
	defer func() { f.curLoop = nil }()
	for _, inv := range li.invs {
		f.hdrPhis[b] = entryPhis
		t := f.evalClauseAt(inv, b, st, nil)
		f.c.addObligation(&Obligation{Name: f.oblName("inv-init", fmt.Sprintf("loop%d:%s", li.ordinal, clauseLabel(inv))), Class: "invariant-init",
			Props: f.clauseProps(inv), Guard: re, Goal: t, Src: inv.Text})
	}
	delete(f.hdrPhis, b)
	// 2. havoc
	ls := c.loopState(st, mod, all, roots)
	// returned(NAME) for calls inside this loop: what an earlier iteration's call returned is unknown at the head
	if f.callerFrame == nil {
		for lb := range li.body {
			for _, in := range lb.Instrs {
				ci, ok := in.(ssa.CallInstruction)
				if !ok || ci.Value() == nil {
					continue
				}
				n := callHistName(ci.Common())
				if n == "" || c.loopHistDone[loopHistKey{b, n}] {
					continue
				}
				if c.loopHistDone == nil {
					c.loopHistDone = map[loopHistKey]bool{}
				}
				c.loopHistDone[loopHistKey{b, n}] = true
				if c.callHist == nil {
					c.callHist = map[string][]callRec{}
				}
				rt := ci.Value().Type()
				uv := f.freshVal(rt, fmt.Sprintf("%sret_%s_L%d", f.prefixSym(), sanitize(n), li.ordinal))
				c.callHist[n] = append(c.callHist[n], callRec{cond: re, val: uv})
			}
		}
	}
	// local allocations that never escape and that the loop body itself never stores to keep their contents: the
	// unknown code the body calls cannot reach them
	if len(c.localObjs) > 0 {
		written := map[ssa.Value]bool{}
		for lb := range li.body {
			for _, in := range lb.Instrs {
				switch x := in.(type) {
				case *ssa.Store:
					if r := storeRoot(x.Addr); r != nil {
						written[r] = true
					}
				case *ssa.MapUpdate:
					written[x.Map] = true
				case *ssa.Call:
					if b, isB := x.Call.Value.(*ssa.Builtin); isB && (b.Name() == "delete" || b.Name() == "clear") && len(x.Call.Args) > 0 {
						written[x.Call.Args[0]] = true
					}
				}
			}
		}
		for _, lo := range c.localObjs {
			if lo.alloc == nil || written[lo.alloc] {
				continue
			}
			if in, ok := lo.alloc.(ssa.Instruction); ok && in.Block() != nil && li.body[in.Block()] {
				continue // allocated inside the loop
			}
			for _, k := range lo.keys {
				if all || mod[k.Name] {
					ls = ls.set(k, fmt.Sprintf("(store %s %s (select %s %s))", ls.get(k), lo.ref, st.get(k), lo.ref))
				}
			}
		}
	}
	hv := map[*ssa.Phi]Val{}
	var tinv []string
	for _, in := range b.Instrs {
		phi, ok := in.(*ssa.Phi)
		if !ok {
			break
		}
		v := f.freshVal(phi.Type(), fmt.Sprintf("%s%s_L%d", f.prefixSym(), phiName(phi), li.ordinal))
		hv[phi] = v
		f.vals[phi] = v
		if ti := f.typeInv(v); ti != "true" {
			tinv = append(tinv, ti)
		}
		if rb := c.refBound(v, ls.watermark()); rb != "true" {
			tinv = append(tinv, rb) // a loop-carried reference exists at the loop head (alloc.go)
		}
		// automatic monotonicity fact: a counter that is only incremented (decremented) by a non-negative
		// constant on every back edge never drops below (rises above) its entry value. Sound for mathematical
		// integers (mode int, no-overflow assumption recorded).
		if c.mode == ModeInt {
			if bits, _, ok := intInfo(phi.Type()); ok && bits == 64 {
				dir := 0
				okAll := true
				var step int64 = -1
				for i, p := range b.Preds {
					if !(li.body[p] && b.Dominates(p)) {
						continue
					}
					bo, isBin := phi.Edges[i].(*ssa.BinOp)
					if !isBin || bo.X != ssa.Value(phi) {
						okAll = false
						break
					}
					k, isK := bo.Y.(*ssa.Const)
					if !isK || k.Value == nil {
						okAll = false
						break
					}
					kv, exact := constant.Int64Val(k.Value)
					if !exact || kv < 0 {
						okAll = false
						break
					}
					d := 0
					if bo.Op == token.ADD {
						d = 1
					} else if bo.Op == token.SUB {
						d = -1
					} else {
						okAll = false
						break
					}
					if dir != 0 && dir != d {
						okAll = false
						break
					}
					dir = d
					if step == -1 {
						step = kv
					} else if step != kv {
						step = 0
					}
				}
				if okAll && dir != 0 && step > 1 {
					if ev := entryPhis[phi]; ev.S != "" {
						// every iteration moves the counter by exactly `step`: it stays congruent to its entry value
						tinv = append(tinv, fmt.Sprintf("(= (mod (- %s %s) %d) 0)", v.S, ev.S, step))
					}
				}
				if okAll && dir != 0 {
					ev := entryPhis[phi]
					if ev.S != "" {
						if dir > 0 {
							tinv = append(tinv, fmt.Sprintf("(<= %s %s)", ev.S, v.S))
						} else {
							tinv = append(tinv, fmt.Sprintf("(>= %s %s)", ev.S, v.S))
						}
						c.assume("loop counters changed only by +k / -k (k >= 0 constant) are monotone (auto-invariant; int arithmetic mathematical)")
					}
				}
			}
		}
	}
	// 3. assume invariants
	var invTerms []string
	for _, inv := range li.invs {
		invTerms = append(invTerms, f.evalClauseAt(inv, b, ls, nil))
	}
	for i := range tinv {
		tinv[i] = c.nameQuantified(tinv[i], fmt.Sprintf("%sb%d_hq%d", f.prefixSym(), b.Index, i))
	}
	for i := range invTerms {
		invTerms[i] = c.nameQuantified(invTerms[i], fmt.Sprintf("%sb%d_hi%d", f.prefixSym(), b.Index, i))
	}
	hre := c.define(fmt.Sprintf("%sb%d_h", f.prefixSym(), b.Index), "Bool", and(append(append([]string{re}, tinv...), invTerms...)...))
	f.in[b] = ls
	f.reach[b] = hre
}

type loopHistKey struct {
	b *ssa.BasicBlock
	n string
}

type loopEntryCtx struct {
	st   *State
	phis map[*ssa.Phi]Val
}

func phiName(p *ssa.Phi) string {
	if p.Comment != "" {
		return p.Comment
	}
	return p.Name()
}

func (f *Frame) prefixSym() string {
	if f.prefixOverride != "" {
		return f.prefixOverride
	}
	if f.depth == 0 {
		return ""
	}
	return fmt.Sprintf("i%d_%s_", f.depth, quoteSymInner(f.fn.Name()))
}

func (f *Frame) mergePhi(phi *ssa.Phi, b *ssa.BasicBlock, preds []*ssa.BasicBlock, conds []string) Val {
	var vs []Val
	for _, p := range preds {
		for i, bp := range b.Preds {
			if bp == p {
				vs = append(vs, f.val(phi.Edges[i]))
				break
			}
		}
	}
	return f.mergeVals(phi.Type(), vs, conds, f.prefixSym()+phi.Name())
}

func (f *Frame) mergeVals(t types.Type, vs []Val, conds []string, hint string) Val {
	if len(vs) == 1 {
		return vs[0]
	}
	same := true
	for _, v := range vs[1:] {
		if v.S != vs[0].S || v.P != vs[0].P || v.Clo != vs[0].Clo || v.Tup != nil {
			same = false
		}
	}
	if same && vs[0].Tup == nil {
		return vs[0]
	}
	if vs[0].Tup != nil {
		out := Val{T: t}
		for i := range vs[0].Tup {
			var col []Val
			for _, v := range vs {
				col = append(col, v.Tup[i])
			}
			out.Tup = append(out.Tup, f.mergeVals(vs[0].Tup[i].T, col, conds, fmt.Sprintf("%s_%d", hint, i)))
		}
		return out
	}
	// pointers with identical static structure could be merged; otherwise use opaque terms
	term := f.c.termOf(vs[len(vs)-1])
	for i := len(vs) - 2; i >= 0; i-- {
		term = fmt.Sprintf("(ite %s %s %s)", conds[i], f.c.termOf(vs[i]), term)
	}
	for _, v := range vs {
		if v.P != nil && len(v.P.Path) > 0 {
			f.c.note("phi merges interior pointers (%s): treated as opaque addresses", hint)
		}
	}
	name := f.c.define(hint, f.c.so.sortOf(t), term)
	out := Val{T: t, S: name}
	// closures: keep if all equal
	return out
}

func (f *Frame) freshVal(t types.Type, hint string) Val {
	if tup, ok := t.(*types.Tuple); ok {
		v := Val{T: t}
		for i := 0; i < tup.Len(); i++ {
			v.Tup = append(v.Tup, f.freshVal(tup.At(i).Type(), fmt.Sprintf("%s_%d", hint, i)))
		}
		if tup.Len() == 0 {
			v.Tup = []Val{}
		}
		return v
	}
	return Val{T: t, S: f.c.declare(hint, f.c.so.sortOf(t))}
}

// typeInv returns a Bool term with the representation invariant of a value.
func (f *Frame) typeInv(v Val) string { return f.c.typeInvD(v, 2) }

func (c *FuncCtx) typeInvD(v Val, depth int) string {
	if v.Tup != nil {
		var ts []string
		for _, x := range v.Tup {
			ts = append(ts, c.typeInvD(x, depth))
		}
		return and(ts...)
	}
	if v.P != nil || v.S == "" {
		return "true"
	}
	switch u := v.T.Underlying().(type) {
	case *types.Basic:
		if _, _, ok := intInfo(v.T); ok {
			return c.intRange(v.S, v.T)
		}
		if isString(v.T) && c.mode == ModeInt {
			// a string VALUE of the program fits in memory (the universal axiom only says slen >= 0)
			return fmt.Sprintf("(< (slen %s) 140737488355328)", v.S)
		}
	case *types.Slice:
		return fmt.Sprintf("(wf_slice %s)", v.S)
	case *types.Struct:
		if depth == 0 {
			return "true"
		}
		sn := c.so.structSort(v.T, u)
		var ts []string
		if ui := c.userTypeInv(v); ui != "" && !c.noUserInv {
			ts = append(ts, ui)
		}
		for i := 0; i < u.NumFields(); i++ {
			ft := u.Field(i).Type()
			switch ft.Underlying().(type) {
			case *types.Basic, *types.Slice, *types.Struct:
				ts = append(ts, c.typeInvD(Val{T: ft, S: fmt.Sprintf("(%s %s)", c.so.fieldSel(sn, u, i), v.S)}, depth-1))
			}
		}
		return and(ts...)
	}
	return "true"
}

func (f *Frame) oblName(class, detail string) string {
	d := strings.Join(strings.Fields(detail), " ")
	if len(d) > 90 {
		d = d[:90]
	}
	tag := ""
	if rc := f.c.rootCon; rc != nil {
		tag = rc.Tag
	}
	return fmt.Sprintf("%s%s#%s:%s", fnDisplayName(f.rootFn()), tag, class, f.inlinePath()+d)
}

func (f *Frame) rootFn() *ssa.Function {
	x := f
	for x.callerFrame != nil {
		x = x.callerFrame
	}
	return x.fn
}

func (f *Frame) inlinePath() string {
	if f.callerFrame == nil {
		return ""
	}
	return f.callerFrame.inlinePath() + contractName(f.fn) + "/"
}

func clauseLabel(cl *Clause) string {
	if cl.Label != "" {
		return cl.Label
	}
	return cl.Text
}

func (f *Frame) clauseProps(cl *Clause) []string {
	if len(cl.Props) > 0 {
		return cl.Props
	}
	return f.allProps()
}

func (f *Frame) allProps() []string {
	x := f
	for x.callerFrame != nil {
		x = x.callerFrame
	}
	if x.con == nil {
		return nil
	}
	var ps []string
	for p := range x.con.Props {
		ps = append(ps, p)
	}
	sort.Strings(ps)
	return ps
}

// safetyProps: properties that claim automatic obligations of the given class in the root function
func (f *Frame) safetyProps(class string) []string {
	x := f
	for x.callerFrame != nil {
		x = x.callerFrame
	}
	if x.con == nil {
		return nil
	}
	var ps []string
	for p, classes := range x.con.Safety {
		for _, cl := range classes {
			if cl == "*" || cl == class {
				ps = append(ps, p)
				break
			}
		}
	}
	sort.Strings(ps)
	return ps
}

func (f *Frame) srcText(pos token.Pos) string {
	return f.c.eng.sourceText(pos)
}

// safety adds an automatic obligation.
func (f *Frame) safety(class string, cur *blockCur, goal string, in ssa.Instruction, detail string) {
	if goal == "true" {
		return
	}
	for x := f; x != nil; x = x.callerFrame {
		if x.suppress {
			// the callee is verified on its own against its own safety claim
			cur.assume(goal)
			return
		}
	}
	pos := in.Pos()
	if !pos.IsValid() {
		if v, ok := in.(ssa.Value); ok {
			pos = f.posOfValue(v)
		}
	}
	src := detail
	if src == "" {
		src = f.c.eng.exprTextAt(f.rootFn(), in)
	}
	f.c.addObligation(&Obligation{Name: f.oblName(class, src), Class: class, Props: f.safetyProps(class), Guard: cur.reach, Goal: goal,
		Pos: f.c.eng.posString(pos), Src: src})
	// after the check the program continues only if it held
	cur.assume(goal)
}

func (f *Frame) posOfValue(v ssa.Value) token.Pos { return v.Pos() }

// ---------------------------------------------------------------------------

type blockCur struct {
	f     *Frame
	b     *ssa.BasicBlock
	st    *State
	reach string
	n     int
	dead  bool
}

// nameQuantified: a quantified fact that is about to become part of a block predicate is replaced by a Boolean name q
// with the global, one-directional axiom q => fact (see blockCur.assume).
func (c *FuncCtx) nameQuantified(t, hint string) string {
	if c.inlineDefs > 0 || !(strings.Contains(t, "(forall ") || strings.Contains(t, "(exists ")) {
		return t
	}
	q := c.declare(hint, "Bool")
	c.axiom(fmt.Sprintf("(=> %s %s)", q, t), q)
	return q
}

func (cur *blockCur) assume(t string) {
	if t == "true" || t == "" {
		return
	}
	cur.n++
	c := cur.f.c
	if c.pureSpec > 0 {
		// a function is being unfolded inside a specification: what the translation would ASSUME along the way (type
		// invariants of loaded values, callee postconditions) must not become part of the conditions that select
		// the result — nothing asserts those assumptions on the path that uses the specification, and a result of
		// the form ite(assumptions-and-branch, v, zero) would differ from the code's own value of the same call
		return
	}
	if c.inlineDefs == 0 && (strings.Contains(t, "(forall ") || strings.Contains(t, "(exists ")) {
		// A quantified fact never sits inside a block predicate: block predicates are used in both polarities (as
		// conditions of the `ite` terms that merge states), and the solvers' incremental front end is not reliable
		// for quantifiers in such positions (observed: `unsat` answers that disappear when an unused definition is
		// removed). The fact gets a Boolean name q with the one-directional axiom q => fact; the path assumes q.
		// Sound for proving (the path may be taken although q is false: more behaviours, never fewer).
		q := c.declare(fmt.Sprintf("%sb%d_q%d", cur.f.prefixSym(), cur.b.Index, cur.n), "Bool")
		c.axiom(fmt.Sprintf("(=> %s %s)", q, t), q)
		t = q
	}
	cur.reach = c.define(fmt.Sprintf("%sb%d_a%d", cur.f.prefixSym(), cur.b.Index, cur.n), "Bool", and(cur.reach, t))
}

func (f *Frame) execBlock(b *ssa.BasicBlock) {
	if f.reach[b] == "false" || f.reach[b] == "" {
		f.outRe[b] = ""
		return
	}
	cur := &blockCur{f: f, b: b, st: f.in[b], reach: f.reach[b]}
	for _, in := range b.Instrs {
		if cur.dead {
			break
		}
		f.c.stats.instrs++
		f.execInstr(cur, in)
	}
	if cur.dead {
		f.outRe[b] = ""
		return
	}
	f.outSt[b] = cur.st
	f.outRe[b] = cur.reach
	// back edges: prove invariants preserved
	for _, s := range b.Succs {
		if li := f.loops[s]; li != nil && li.body[b] && s.Dominates(b) {
			f.checkBackEdge(cur, b, li)
		}
	}
}

func (f *Frame) checkBackEdge(cur *blockCur, b *ssa.BasicBlock, li *loopInfo) {
	h := li.header
	guard := f.edgeCond(b, h)
	if guard == "false" {
		return
	}
	phis := map[*ssa.Phi]Val{}
	for _, in := range h.Instrs {
		phi, ok := in.(*ssa.Phi)
		if !ok {
			break
		}
		for i, p := range h.Preds {
			if p == b {
				phis[phi] = f.val(phi.Edges[i])
			}
		}
	}
	if f.con != nil && f.callerFrame == nil {
		// `loop N: repeat-only-if E`: the iteration that is about to be repeated justifies the repetition — E is
		// evaluated at the jump, with the values this iteration computed (relaxed name lookup, as for call-site asserts)
		for _, cl := range f.con.RepeatIf[li.ordinal] {
			env := f.specEnv(b, cur.st, nil)
			env.atEnd = true
			f.relaxedLocals = true
			t, err := env.evalBool(cl.Expr)
			f.relaxedLocals = false
			if err != nil {
				panic(unsupportedErr{fmt.Sprintf("repeat-only-if %q: %v", cl.Text, err)})
			}
			f.c.addObligation(&Obligation{Name: f.oblName("repeat", fmt.Sprintf("loop%d:%s", li.ordinal, clauseLabel(cl))), Class: "assert",
				Props: f.clauseProps(cl), Guard: guard, Goal: t, Src: "back edge of loop " + fmt.Sprint(li.ordinal) + ": " + cl.Text})
		}
	}
	for _, inv := range li.invs {
		f.hdrPhis[h] = phis
		f.curLoop = h
		t := f.evalClauseAt(inv, h, cur.st, nil)
		f.curLoop = nil
		delete(f.hdrPhis, h)
		f.c.addObligation(&Obligation{Name: f.oblName("inv-pres", fmt.Sprintf("loop%d:%s", li.ordinal, clauseLabel(inv))), Class: "invariant-pres",
			Props: f.clauseProps(inv), Guard: guard, Goal: t, Src: inv.Text})
	}
}

// val returns the symbolic value of an SSA value.
func (f *Frame) val(v ssa.Value) Val {
	if x, ok := f.vals[v]; ok {
		return x
	}
	c := f.c
	switch x := v.(type) {
	case *ssa.Const:
		if x.Value == nil {
			return Val{T: x.Type(), S: c.so.zero(x.Type())}
		}
		return Val{T: x.Type(), S: c.constTerm(x.Value, x.Type())}
	case *ssa.Global:
		name := "g_" + quoteSymInner(x.Pkg.Pkg.Name()+"_"+x.Name())
		if !c.needed[name] {
			c.needDecl(name, fmt.Sprintf("(declare-const %s Int)", name))
			c.axiom(fmt.Sprintf("(< %s 0)", name), name) // globals live at negative addresses: distinct from heap allocs (>0)
			c.globalIdx++
			c.axiom(fmt.Sprintf("(= %s (- %d))", name, c.globalIdx), name)
		}
		pt := x.Type().(*types.Pointer).Elem()
		p := &Ptr{Root: name, Obj: pt}
		if at, ok := pt.Underlying().(*types.Array); ok {
			p.ArrElem = at.Elem()
		}
		return Val{T: x.Type(), P: p}
	case *ssa.Function:
		return Val{T: x.Type(), S: c.funcConst(x), Clo: &Closure{Fn: x}}
	case *ssa.Builtin:
		return Val{T: x.Type(), S: "0"}
	case *ssa.Parameter, *ssa.FreeVar:
		f.unsupported("unbound parameter %s", v.Name())
	}
	f.unsupported("value %s (%T) used before definition", v.Name(), v)
	return Val{}
}

func (c *FuncCtx) funcConst(fn *ssa.Function) string {
	name := "fn_" + quoteSymInner(fnDisplayName(fn))
	if !c.needed[name] {
		c.needDecl(name, fmt.Sprintf("(declare-const %s Int)", name))
		c.funcIdx++
		c.axiom(fmt.Sprintf("(= %s %d)", name, 1000000+c.funcIdx), name)
	}
	return name
}

func (f *Frame) setVal(v ssa.Value, x Val) {
	if x.T == nil {
		x.T = v.Type()
	}
	f.vals[v] = x
}

// named defines a named term for an instruction result (keeps queries readable / shared)
func (f *Frame) named(v ssa.Value, term string) Val {
	t := v.Type()
	name := f.c.define(f.prefixSym()+v.Name(), f.c.so.sortOf(t), term)
	val := Val{T: t, S: name}
	f.vals[v] = val
	return val
}
