package main

// FuncCtx: the SMT script under construction for one function (or lemma set).

import (
	"fmt"
	"go/types"
	"sort"
	"strings"
	"sync"

	"golang.org/x/tools/go/ssa"
)

type Def struct {
	Sym   string // defined symbol ("" for pure assertions)
	Text  string
	Axiom bool
	Trig  []string // axioms: included only when all trigger symbols are used
	deps  []string
}

type Obligation struct {
	Name   string
	Class  string // index slice makeslice div nil assert-type panic ensures invariant-init invariant-pres requires assert lemma overflow cover
	Func   string
	Props  []string
	Guard  string // reach term
	Goal   string // Bool term to prove under guard
	NDefs  int    // number of defs visible
	Pos    string // source position (informational only)
	Src    string
	Cover  bool // expected sat
	Inputs []ModelVar
	// results
	Status    string // unsat sat unknown timeout error
	Solver    string
	Ms        int64
	Model     map[string]string
	Output    string
	ExpectSat bool
	Raw       string // complete SMT-LIB query (raw lemmas): unsat = holds
}

type ModelVar struct {
	Name string // source-level name
	Term string // SMT term to evaluate
	Kind string // int string bool slice-len ...
}

type FuncCtx struct {
	eng                                                      *Engine
	so                                                       *Sorts
	mode                                                     Mode
	defs                                                     []Def
	symIdx                                                   map[string]int
	needed                                                   map[string]bool
	fresh                                                    int
	epoch                                                    int
	stateID                                                  int
	strLits                                                  map[string]string
	obls                                                     []*Obligation
	callHist                                                 map[string][]callRec // callee name -> its calls translated so far, in order (returned() picks the latest one on the path)
	loopHistDone                                             map[loopHistKey]bool
	idxTerms                                                 []string        // index terms of the element accesses translated so far (witness candidates for existentials)
	assertHit                                                map[*Clause]int // call-site assertions: number of call sites matched
	whereDefinedHit                                          map[*Clause]int // where-defined postconditions: number of returns they applied at
	lastCall                                                 map[string]Val  // callee name -> value returned by its latest call in the root function (spec builtin returned())
	lastCallBlock                                            map[string]*ssa.BasicBlock
	inLemma                                                  bool // this context proves a lemma: proved-lemma axioms from lemmaAxLimit on are not available
	lemmaAxLimit                                             int
	notes                                                    []string // abstraction notes
	notesSet                                                 map[string]bool
	assumptions                                              map[string]bool
	typeIDs                                                  map[string]int
	fnName                                                   string
	oblNames                                                 map[string]int
	specFnDeclared                                           map[string]bool
	specFnHeaps                                              map[string][]HeapKey    // heaps a spec function's body reads: hidden parameters
	immutKeys                                                map[string]string       // heap name -> Type.field of declared immutable fields (immutable.go)
	tracked                                                  []string                // names N with calls(N) in the root contract (callassert.go)
	lastHavocBase                                            *State                  // the base state created by the latest havocAll (before local objects are copied back)
	callPre                                                  map[string]*State       // state in which the latest call of NAME started (before(NAME, E))
	callPreArgs                                              map[string][]Val        // ... and its actual arguments (arg0, arg1, ... inside before())
	preRet                                                   map[ssa.Instruction]Val // placeholders for results of calls translated later (speceval.go preReturned)
	axiomsAdded                                              bool
	inputs                                                   []ModelVar
	nonNil                                                   map[string]bool
	allAllocs                                                []string
	inputRefs                                                []string
	iters                                                    map[ssa.Value]rangeIter
	globalIdx, funcIdx, inlineSeq, pureSeq, qcount, havocSeq int
	heapKeys                                                 map[string]HeapKey
	localObjs                                                []localObj
	noUserInv                                                bool
	mu                                                       sync.Mutex
	interior                                                 map[string]*Ptr
	gerrIdx                                                  int
	pendingFacts                                             []string
	rootCon                                                  *Contract
	lastMapRange                                             *ssa.Range
	inlineDefs                                               int
	pureSpec                                                 int // >0 while a Go function is unfolded inside a specification (blockCur.assume is then a no-op)
	qdepth                                                   int
	addingAxioms                                             bool
	axiomDone                                                map[int]bool
	rootFn                                                   *ssa.Function
	stats                                                    struct{ instrs, calls, callsContract, callsInline, callsHavoc, callsBuiltin, loops, loopsWithInv, conc int }
}

func newFuncCtx(eng *Engine, mode Mode, name string) *FuncCtx {
	c := &FuncCtx{eng: eng, so: newSorts(mode), mode: mode, symIdx: map[string]int{}, needed: map[string]bool{},
		strLits: map[string]string{}, notesSet: map[string]bool{}, assumptions: map[string]bool{}, typeIDs: map[string]int{}, fnName: name,
		oblNames: map[string]int{}, specFnDeclared: map[string]bool{}, specFnHeaps: map[string][]HeapKey{}, heapKeys: map[string]HeapKey{}}
	return c
}

func (c *FuncCtx) note(f string, a ...any) {
	s := fmt.Sprintf(f, a...)
	if !c.notesSet[s] {
		c.notesSet[s] = true
		c.notes = append(c.notes, s)
	}
}

func (c *FuncCtx) assume(s string) { c.assumptions[s] = true }

func quoteSym(s string) string {
	for _, r := range s {
		if !(r >= 'a' && r <= 'z' || r >= 'A' && r <= 'Z' || r >= '0' && r <= '9' || strings.ContainsRune("_.$@!-", r)) {
			return "|" + s + "|"
		}
	}
	return s
}

func (c *FuncCtx) uniq(hint string) string {
	hint = quoteSymInner(hint)
	if _, ok := c.symIdx[hint]; !ok {
		return hint
	}
	for {
		c.fresh++
		n := fmt.Sprintf("%s!%d", hint, c.fresh)
		if _, ok := c.symIdx[n]; !ok {
			return n
		}
	}
}

func quoteSymInner(s string) string {
	var b strings.Builder
	for _, r := range s {
		if r >= 'a' && r <= 'z' || r >= 'A' && r <= 'Z' || r >= '0' && r <= '9' || strings.ContainsRune("_.$@!", r) {
			b.WriteRune(r)
		} else {
			b.WriteByte('_')
		}
	}
	return b.String()
}

func (c *FuncCtx) addDef(d Def) {
	if d.Sym != "" {
		c.symIdx[d.Sym] = len(c.defs)
	}
	c.defs = append(c.defs, d)
}

func (c *FuncCtx) declare(hint, sort string) string {
	n := c.uniq(hint)
	c.addDef(Def{Sym: n, Text: fmt.Sprintf("(declare-const %s %s)", n, sort)})
	return n
}

func (c *FuncCtx) define(hint, sort, term string) string {
	if c.inlineDefs > 0 {
		// evaluating code inside a quantified specification: the term may mention bound variables, so it cannot
		// get a global name
		return term
	}
	n := c.uniq(hint)
	c.addDef(Def{Sym: n, Text: fmt.Sprintf("(define-fun %s () %s %s)", n, sort, term)})
	return n
}

func (c *FuncCtx) needDecl(sym, text string) {
	if c.needed[sym] {
		return
	}
	c.needed[sym] = true
	c.addDef(Def{Sym: sym, Text: text})
}

// axiom adds a global fact (must be valid in every execution!).
func (c *FuncCtx) axiom(text string, trig ...string) {
	c.addDef(Def{Text: "(assert " + text + ")", Axiom: true, Trig: trig})
}

func (c *FuncCtx) typeIDByName(n string) int {
	if id, ok := c.typeIDs[n]; ok {
		return id
	}
	id := len(c.typeIDs) + 1
	c.typeIDs[n] = id
	return id
}

func (c *FuncCtx) typeID(t types.Type) int {
	n := types.TypeString(t, nil)
	if id, ok := c.typeIDs[n]; ok {
		return id
	}
	id := len(c.typeIDs) + 1
	c.typeIDs[n] = id
	return id
}

// ---------------------------------------------------------------------------
// prelude

func (c *FuncCtx) prelude() []string {
	idx := c.so.idxSort()
	byteS := "Int"
	zero := "0"
	if c.mode == ModeBV {
		byteS = "(_ BitVec 8)"
		zero = "(_ bv0 64)"
	}
	p := []string{
		"(declare-sort Str 0)",
		"(declare-sort Flt 0)",
		fmt.Sprintf("(declare-fun slen (Str) %s)", idx),
		fmt.Sprintf("(declare-fun sat (Str %s) %s)", idx, byteS),
		"(declare-const str_empty Str)",
		"(declare-const flt_zero Flt)",
		fmt.Sprintf("(declare-datatype Slice ((mk_slice (s_ref Int) (s_off %s) (s_len %s) (s_cap %s))))", idx, idx, idx),
		"(declare-datatype Iface ((mk_iface (i_tag Int) (i_val Int))))",
		"(define-fun iface_nil () Iface (mk_iface 0 0))",
		fmt.Sprintf("(assert (= (slen str_empty) %s))", zero),
	}
	if c.mode == ModeInt {
		p = append(p,
			// NOTE: no universal upper bound on slen: together with the concatenation / byte-slice constructors it would be
			// inconsistent (the bound is a fact about Go VALUES of type string: typeInvD)
			"(assert (forall ((s Str)) (! (>= (slen s) 0) :pattern ((slen s)))))",
			"(assert (forall ((s Str)) (! (=> (= (slen s) 0) (= s str_empty)) :pattern ((slen s)))))",
			"(assert (forall ((s Str) (i Int)) (! (and (<= 0 (sat s i)) (< (sat s i) 256)) :pattern ((sat s i)))))",
			"(define-fun tdiv ((x Int) (y Int)) Int (ite (>= x 0) (ite (> y 0) (div x y) (- (div x (- y)))) (ite (> y 0) (- (div (- x) y)) (div (- x) (- y)))))",
			"(define-fun trem ((x Int) (y Int)) Int (- x (* y (tdiv x y))))",
			"(define-fun wf_slice ((s Slice)) Bool (and (<= 0 (s_off s)) (<= 0 (s_len s)) (<= (s_len s) (s_cap s)) (< (s_cap s) 140737488355328) (< (s_off s) 140737488355328) (=> (= (s_ref s) 0) (= (s_cap s) 0))))",
		)
	} else {
		p = append(p,
			"(assert (forall ((s Str)) (! (bvsge (slen s) (_ bv0 64)) :pattern ((slen s)))))",
			"(assert (forall ((s Str)) (! (=> (= (slen s) (_ bv0 64)) (= s str_empty)) :pattern ((slen s)))))",
			"(define-fun wf_slice ((s Slice)) Bool (and (bvsle (_ bv0 64) (s_off s)) (bvsle (_ bv0 64) (s_len s)) (bvsle (s_len s) (s_cap s)) (bvslt (s_cap s) (_ bv140737488355328 64)) (bvslt (s_off s) (_ bv140737488355328 64))))",
		)
	}
	return p
}

// ---------------------------------------------------------------------------
// query construction with dependency slicing

func symbolsOf(text string) []string {
	var out []string
	i := 0
	n := len(text)
	for i < n {
		ch := text[i]
		switch {
		case ch == '|':
			j := i + 1
			for j < n && text[j] != '|' {
				j++
			}
			out = append(out, text[i+1:j])
			i = j + 1
		case ch == '(' || ch == ')' || ch == ' ' || ch == '\n' || ch == '\t':
			i++
		case ch == '"':
			j := i + 1
			for j < n && text[j] != '"' {
				j++
			}
			i = j + 1
		default:
			j := i
			for j < n && !strings.ContainsRune("() \n\t|", rune(text[j])) {
				j++
			}
			out = append(out, text[i:j])
			i = j
		}
	}
	return out
}

func (c *FuncCtx) depsOf(i int) []string {
	d := &c.defs[i]
	if d.deps == nil {
		seen := map[string]bool{}
		for _, s := range symbolsOf(d.Text) {
			if _, ok := c.symIdx[s]; ok && s != d.Sym && !seen[s] {
				seen[s] = true
				d.deps = append(d.deps, s)
			}
		}
		if d.deps == nil {
			d.deps = []string{}
		}
	}
	return d.deps
}

// buildQuery assembles the SMT-LIB text for one obligation.
func (c *FuncCtx) buildQuery(o *Obligation, withModel bool) string {
	return c.buildQueryOpt(o, withModel, false)
}

// buildQueryOpt: relaxed drops the quantified axioms (used to look for candidate models when the full query is undecided).
func (c *FuncCtx) buildQueryOpt(o *Obligation, withModel bool, relaxed bool) string {
	if o.Raw != "" {
		return o.Raw
	}
	c.mu.Lock()
	defer c.mu.Unlock()
	include := map[int]bool{}
	var work []string
	addSyms := func(text string) {
		for _, s := range symbolsOf(text) {
			if idx, ok := c.symIdx[s]; ok && !include[idx] {
				include[idx] = true
				work = append(work, s)
			}
		}
	}
	addSyms(o.Guard)
	addSyms(o.Goal)
	if withModel {
		for _, iv := range o.Inputs {
			addSyms(iv.Term) // the terms read back from a model must be declared in the query
		}
	}
	for {
		for len(work) > 0 {
			s := work[len(work)-1]
			work = work[:len(work)-1]
			idx := c.symIdx[s]
			for _, d := range c.depsOf(idx) {
				di := c.symIdx[d]
				if !include[di] {
					include[di] = true
					work = append(work, d)
				}
			}
		}
		// axioms: include when all their declared symbols are already included (or they have none)
		changed := false
		for i := range c.defs {
			d := &c.defs[i]
			if !d.Axiom || include[i] {
				continue
			}
			deps := c.depsOf(i)
			if c.axiomRelevant(i, include) {
				include[i] = true
				for _, s := range deps {
					if di := c.symIdx[s]; !include[di] {
						include[di] = true
						work = append(work, s)
						changed = true
					}
				}
				changed = true
			}
		}
		if !changed && len(work) == 0 {
			break
		}
	}
	var idxs []int
	for i := range include {
		idxs = append(idxs, i)
	}
	sort.Ints(idxs)
	var b strings.Builder
	if withModel {
		b.WriteString("(set-option :produce-models true)\n")
	}
	b.WriteString("(set-logic ALL)\n")
	for _, l := range c.prelude() {
		if relaxed && strings.HasPrefix(l, "(assert (forall") {
			continue
		}
		b.WriteString(l)
		b.WriteByte('\n')
	}
	for _, l := range c.so.decls {
		b.WriteString(l)
		b.WriteByte('\n')
	}
	for _, i := range idxs {
		if relaxed && c.defs[i].Axiom && strings.Contains(c.defs[i].Text, "(forall") {
			continue
		}
		b.WriteString(c.defs[i].Text)
		b.WriteByte('\n')
	}
	b.WriteString("(assert " + o.Guard + ")\n")
	if o.Cover {
		b.WriteString("(assert " + o.Goal + ")\n")
	} else {
		b.WriteString("(assert (not " + o.Goal + "))\n")
	}
	b.WriteString("(check-sat)\n")
	if withModel && len(o.Inputs) > 0 {
		var ts []string
		for _, iv := range o.Inputs {
			ts = append(ts, iv.Term)
		}
		b.WriteString("(get-value (" + strings.Join(ts, " ") + "))\n")
	}
	return b.String()
}

func (c *FuncCtx) axiomRelevant(i int, include map[int]bool) bool {
	d := &c.defs[i]
	for _, t := range d.Trig {
		idx, ok := c.symIdx[t]
		if !ok || !include[idx] {
			return false
		}
	}
	return true
}

// ---------------------------------------------------------------------------

func (c *FuncCtx) addObligation(o *Obligation) *Obligation {
	o.Func = c.fnName
	base := o.Name
	c.oblNames[base]++
	if n := c.oblNames[base]; n > 1 {
		o.Name = fmt.Sprintf("%s~%d", base, n)
	}
	o.NDefs = len(c.defs)
	if o.Inputs == nil {
		o.Inputs = c.inputs
	}
	c.obls = append(c.obls, o)
	return o
}

func and(ts ...string) string {
	var xs []string
	for _, t := range ts {
		if t == "" || t == "true" {
			continue
		}
		if t == "false" {
			return "false"
		}
		xs = append(xs, t)
	}
	switch len(xs) {
	case 0:
		return "true"
	case 1:
		return xs[0]
	}
	return "(and " + strings.Join(xs, " ") + ")"
}

func or(ts ...string) string {
	var xs []string
	for _, t := range ts {
		if t == "" || t == "false" {
			continue
		}
		if t == "true" {
			return "true"
		}
		xs = append(xs, t)
	}
	switch len(xs) {
	case 0:
		return "false"
	case 1:
		return xs[0]
	}
	return "(or " + strings.Join(xs, " ") + ")"
}

func not(t string) string {
	if t == "true" {
		return "false"
	}
	if t == "false" {
		return "true"
	}
	return "(not " + t + ")"
}

func implies(a, b string) string {
	if a == "true" {
		return b
	}
	return "(=> " + a + " " + b + ")"
}
