package main

// tryIdent evaluates an identifier, reporting failure instead of panicking.
func (e *SpecEnv) tryIdent(name string) (v Val, ok bool) {
	defer func() {
		if r := recover(); r != nil {
			if _, isSpec := r.(specErr); isSpec {
				ok = false
				return
			}
			if _, isUnsup := r.(unsupportedErr); isUnsup {
				ok = false
				return
			}
			panic(r)
		}
	}()
	v = e.evalIdent(name)
	return v, true
}
