package main

import (
	"fmt"
	"go/token"
	"go/types"
	"strings"

	"golang.org/x/tools/go/ssa"
)

func (f *Frame) execInstr(cur *blockCur, in ssa.Instruction) {
	c := f.c
	switch x := in.(type) {
	case *ssa.DebugRef:
		f.recordDebugRef(cur, x)
	case *ssa.Phi:
		// handled at block entry
	case *ssa.Alloc:
		f.execAlloc(cur, x)
	case *ssa.BinOp:
		f.execBinOp(cur, x)
	case *ssa.UnOp:
		f.execUnOp(cur, x)
	case *ssa.Store:
		p := c.ptrOf(f.val(x.Addr))
		f.nilCheck(cur, f.val(x.Addr), in)
		if !f.isLocalRoot(p.Root) {
			f.checkTypeInv(cur, f.val(x.Val), in, "value stored to foreign memory")
		}
		cur.st = f.storeVal(cur.st, p, f.val(x.Val))
	case *ssa.FieldAddr:
		base := f.val(x.X)
		f.nilCheck(cur, base, in)
		p := c.ptrOf(base)
		st := x.X.Type().Underlying().(*types.Pointer).Elem().Underlying().(*types.Struct)
		np := &Ptr{Root: p.Root, Obj: p.Obj, ArrElem: p.ArrElem, Path: append(append([]PathEl{}, p.Path...), PathEl{Field: x.Field, T: st.Field(x.Field).Type()})}
		f.setVal(x, Val{T: x.Type(), P: np})
	case *ssa.Field:
		base := f.val(x.X)
		st := x.X.Type().Underlying().(*types.Struct)
		sn := c.so.structSort(x.X.Type(), st)
		f.named(x, fmt.Sprintf("(%s %s)", c.so.fieldSel(sn, st, x.Field), base.S))
	case *ssa.IndexAddr:
		f.execIndexAddr(cur, x)
	case *ssa.Index:
		base := f.val(x.X)
		idx := c.toIdx(f.val(x.Index))
		switch t := x.X.Type().Underlying().(type) {
		case *types.Array:
			f.safety("index", cur, and(c.iLe(c.so.idxLit(0), idx), c.iLt(idx, c.so.idxLit(t.Len()))), in, "")
			f.named(x, fmt.Sprintf("(select %s %s)", base.S, idx))
		default:
			if isString(x.X.Type()) {
				f.safety("index", cur, and(c.iLe(c.so.idxLit(0), idx), c.iLt(idx, fmt.Sprintf("(slen %s)", base.S))), in, "")
				f.named(x, fmt.Sprintf("(sat %s %s)", base.S, idx))
			} else {
				f.unsupported("Index on %s", x.X.Type())
			}
		}
	case *ssa.Lookup:
		f.execLookup(cur, x)
	case *ssa.Slice:
		f.execSlice(cur, x)
	case *ssa.MakeSlice:
		f.execMakeSlice(cur, x)
	case *ssa.Convert:
		f.execConvert(cur, x)
	case *ssa.ChangeType:
		v := f.val(x.X)
		if st, ok := x.Type().Underlying().(*types.Struct); ok && v.S != "" {
			from := c.so.structSort(x.X.Type(), x.X.Type().Underlying().(*types.Struct))
			to := c.so.structSort(x.Type(), st)
			if from != to {
				// conversion between distinct named struct types with identical fields: rebuild the value
				fst := x.X.Type().Underlying().(*types.Struct)
				var fs []string
				for i := 0; i < st.NumFields(); i++ {
					fs = append(fs, fmt.Sprintf("(%s %s)", c.so.fieldSel(from, fst, i), v.S))
				}
				term := "mk_" + to
				if len(fs) > 0 {
					term = fmt.Sprintf("(mk_%s %s)", to, strings.Join(fs, " "))
				}
				f.named(x, term)
				break
			}
		}
		v.T = x.Type()
		f.setVal(x, v)
	case *ssa.ChangeInterface:
		v := f.val(x.X)
		f.setVal(x, Val{T: x.Type(), S: v.S})
	case *ssa.MakeInterface:
		f.execMakeInterface(cur, x)
	case *ssa.TypeAssert:
		f.execTypeAssert(cur, x)
	case *ssa.Extract:
		t := f.val(x.Tuple)
		if t.Tup == nil || x.Index >= len(t.Tup) {
			f.unsupported("extract from non-tuple %s", x.Tuple.Name())
		}
		v := t.Tup[x.Index]
		if v.T == nil {
			v.T = x.Type()
		}
		f.setVal(x, v)
	case *ssa.Call:
		f.execCall(cur, x, x.Common(), x)
	case *ssa.Go:
		c.stats.conc++
		c.note("go statement: spawned function is not followed (verified on its own if under contract)")
	case *ssa.Defer:
		if !x.Block().Dominates(x.Block()) {
			f.unsupported("defer")
		}
		f.defers = append(f.defers, deferred{call: x.Common(), block: x.Block(), instr: x})
	case *ssa.RunDefers:
		for i := len(f.defers) - 1; i >= 0; i-- {
			d := f.defers[i]
			if !d.block.Dominates(cur.b) {
				if !blockReaches(d.block, cur.b) {
					continue // this defer statement cannot have run on any path to here
				}
				// the deferred call may or may not have been registered on the path to this return: both are covered
				// by treating it as an unknown call here (anything may have happened to memory, nothing is learned)
				f.c.note("conditional defer: the deferred call (registered in block %d) is treated as unknown code at the return in block %d", d.block.Index, cur.b.Index)
				saved := map[string]string{}
				if f.callerFrame == nil {
					for _, n := range f.c.trackedCalls() {
						if !f.trackedMatches(n, d.instr, d.call, d.call.StaticCallee()) {
							saved[n] = cur.st.get(callsKey(n)) // the verifier's own call counters: unknown code cannot change them
						}
					}
				}
				f.havocAll(cur)
				for n, v := range saved {
					cur.st = cur.st.set(callsKey(n), v)
				}
				continue
			}
			f.execCall(cur, d.instr, d.call, nil)
			if cur.dead {
				return
			}
		}
	case *ssa.Return:
		f.execReturn(cur, x)
	case *ssa.Panic:
		f.execPanic(cur, x)
	case *ssa.Jump:
		// nothing
	case *ssa.If:
		cond := f.val(x.Cond).S
		f.edgeC[[2]int{cur.b.Index, cur.b.Succs[0].Index}] = cond
		f.edgeC[[2]int{cur.b.Index, cur.b.Succs[1].Index}] = not(cond)
	case *ssa.MakeClosure:
		fn := x.Fn.(*ssa.Function)
		var bs []Val
		for _, b := range x.Bindings {
			bs = append(bs, f.val(b))
		}
		ref := c.declare(f.prefixSym()+x.Name()+"_clo", "Int")
		cur.assume(fmt.Sprintf("(> %s 0)", ref))
		f.setVal(x, Val{T: x.Type(), S: ref, Clo: &Closure{Fn: fn, Bindings: bs}})
	case *ssa.MakeChan:
		ref := c.declare(f.prefixSym()+x.Name()+"_chan", "Int")
		cur.assume(fmt.Sprintf("(> %s 0)", ref))
		f.setVal(x, Val{T: x.Type(), S: ref})
	case *ssa.Send:
		c.stats.conc++
		c.note("channel send: treated as an external effect")
		f.recordEffect(cur, "send", []Val{f.val(x.Chan), f.val(x.X)})
	case *ssa.Select:
		f.execSelect(cur, x)
	case *ssa.MakeMap:
		f.execMakeMap(cur, x)
	case *ssa.MapUpdate:
		f.execMapUpdate(cur, x)
	case *ssa.Range:
		f.execRange(cur, x)
	case *ssa.Next:
		f.execNext(cur, x)
	case *ssa.SliceToArrayPointer:
		f.unsupported("SliceToArrayPointer")
	case *ssa.MultiConvert:
		f.unsupported("MultiConvert")
	default:
		f.unsupported("instruction %T", in)
	}
}

func (f *Frame) recordDebugRef(cur *blockCur, x *ssa.DebugRef) {
	obj := x.Object()
	if obj == nil {
		return
	}
	if v, isVar := obj.(*types.Var); isVar && v.IsField() {
		return // `x.f`: a reference to a struct field, not a variable named f
	}
	name := obj.Name()
	idx := len(f.locals[name])
	_ = idx
	f.locals[name] = append(f.locals[name], localDef{block: cur.b, val: x.X, addr: x.IsAddr, obj: obj})
}

func (f *Frame) nilCheck(cur *blockCur, v Val, in ssa.Instruction) {
	if v.P != nil {
		if len(v.P.Path) > 0 {
			return
		}
		if f.nonNilRoots()[v.P.Root] {
			return
		}
		f.safety("nil", cur, fmt.Sprintf("(not (= %s 0))", v.P.Root), in, "")
		return
	}
	if f.nonNilRoots()[v.S] {
		return
	}
	f.safety("nil", cur, fmt.Sprintf("(not (= %s 0))", v.S), in, "")
}

func (f *Frame) nonNilRoots() map[string]bool {
	x := f
	for x.callerFrame != nil {
		x = x.callerFrame
	}
	if x.c.nonNil == nil {
		x.c.nonNil = map[string]bool{}
	}
	return x.c.nonNil
}

func (f *Frame) storeVal(st *State, p *Ptr, v Val) *State {
	return f.c.store(st, p, f.c.termOf(v))
}

func (f *Frame) execAlloc(cur *blockCur, x *ssa.Alloc) {
	c := f.c
	t := x.Type().Underlying().(*types.Pointer).Elem()
	hint := x.Comment
	if hint == "" {
		hint = x.Name()
	}
	ref := f.freshRef(cur, f.prefixSym()+"ref_"+hint)
	p := &Ptr{Root: ref, Obj: t}
	if at, ok := t.Underlying().(*types.Array); ok {
		p.ArrElem = at.Elem()
	}
	cur.st = c.store(cur.st, p, c.so.zero(t))
	f.ghostInitAlloc(cur, t, ref)
	f.setVal(x, Val{T: x.Type(), P: p})
	if !escapes(x) {
		c.localObjs = append(c.localObjs, localObj{ref: ref, keys: c.heapKeysOfPtr(p), alloc: x})
	}
}

func (f *Frame) freshRef(cur *blockCur, hint string) string {
	c := f.c
	ref := c.declare(hint, "Int")
	facts := []string{fmt.Sprintf("(> %s 0)", ref)}
	for _, o := range c.allAllocs {
		facts = append(facts, fmt.Sprintf("(not (= %s %s))", ref, o))
	}
	for _, o := range c.inputRefs {
		facts = append(facts, fmt.Sprintf("(not (= %s %s))", ref, o))
	}
	c.allAllocs = append(c.allAllocs, ref)
	f.nonNilRoots()[ref] = true
	// above the allocation watermark: distinct from every reference that exists so far, loaded or not (alloc.go)
	if cur.st != nil {
		facts = append(facts, fmt.Sprintf("(> %s %s)", ref, cur.st.watermark()))
		cur.st = cur.st.set(allocKey, ref)
	}
	cur.assume(and(facts...))
	return ref
}

func (f *Frame) execBinOp(cur *blockCur, x *ssa.BinOp) {
	c := f.c
	a, b := f.val(x.X), f.val(x.Y)
	if (x.Op == token.QUO || x.Op == token.REM) && !isFloat(x.X.Type()) {
		zero := c.so.intLit(x.Y.Type(), 0)
		f.safety("div", cur, fmt.Sprintf("(not (= %s %s))", b.S, zero), x, "")
	}
	// comparisons against nil for slices / maps / funcs
	if x.Op == token.EQL || x.Op == token.NEQ {
		if _, ok := x.X.Type().Underlying().(*types.Slice); ok {
			var other Val
			if isNilConst(x.Y) {
				other = a
			} else {
				other = b
			}
			t := fmt.Sprintf("(= (s_ref %s) 0)", other.S)
			if x.Op == token.NEQ {
				t = not(t)
			}
			f.named(x, t)
			return
		}
	}
	t, err := c.binop(x.Op, a, b, x.Type())
	if err != nil {
		f.unsupported("%v", err)
	}
	f.named(x, t)
	if x.Op == token.ADD || x.Op == token.SUB || x.Op == token.MUL {
		if bits, _, ok := intInfo(x.Type()); ok && c.mode == ModeInt && bits == 64 && f.overflowOn() {
			f.c.addObligation(&Obligation{Name: f.oblName("overflow", c.eng.exprTextAt(f.rootFn(), x)), Class: "overflow", Props: f.safetyProps("overflow"),
				Guard: cur.reach, Goal: c.intRange(f.vals[x].S, x.Type())})
		}
	}
}

func (f *Frame) overflowOn() bool {
	x := f
	for x.callerFrame != nil {
		x = x.callerFrame
	}
	return x.con != nil && x.con.Options["overflow"] != ""
}

func isNilConst(v ssa.Value) bool {
	k, ok := v.(*ssa.Const)
	return ok && k.Value == nil
}

func (f *Frame) execUnOp(cur *blockCur, x *ssa.UnOp) {
	c := f.c
	v := f.val(x.X)
	switch x.Op {
	case token.MUL: // load
		f.nilCheck(cur, v, x)
		p := c.ptrOf(v)
		term := c.load(cur.st, p, x.Type())
		res := f.named(x, term)
		// user type invariants are assumed only for memory this function did not allocate
		if f.isLocalRoot(p.Root) {
			f.c.noUserInv = true
		}
		cur.assume(f.typeInv(res))
		f.c.noUserInv = false
		if g, isGlobal := x.X.(*ssa.Global); isGlobal {
			f.globalLoadFacts(cur, g, res)
		}
		// loading a field of a foreign object: the enclosing object satisfies its type invariant
		if !f.isLocalRoot(p.Root) && len(p.Path) > 0 {
			if p.ArrElem != nil && p.Path[0].Index != "" && len(p.Path) > 1 && c.hasTypeInv(p.ArrElem) {
				ep := &Ptr{Root: p.Root, Obj: p.Obj, ArrElem: p.ArrElem, Path: p.Path[:1]}
				cur.assume(c.userTypeInv(Val{T: p.ArrElem, S: c.load(cur.st, ep, p.ArrElem)}))
			} else if p.ArrElem == nil && c.hasTypeInv(p.Obj) {
				op := &Ptr{Root: p.Root, Obj: p.Obj}
				cur.assume(c.userTypeInv(Val{T: p.Obj, S: c.load(cur.st, op, p.Obj)}))
			}
		}
	case token.NOT:
		f.named(x, not(v.S))
	case token.SUB:
		if isFloat(x.Type()) {
			c.uf("flt_neg", "(Flt) Flt")
			f.named(x, fmt.Sprintf("(flt_neg %s)", v.S))
			return
		}
		if c.mode == ModeBV {
			f.named(x, fmt.Sprintf("(bvneg %s)", v.S))
		} else {
			f.named(x, c.wrap(fmt.Sprintf("(- %s)", v.S), x.Type()))
		}
	case token.XOR:
		if c.mode == ModeBV {
			f.named(x, fmt.Sprintf("(bvnot %s)", v.S))
		} else {
			_, signed, _ := intInfo(x.Type())
			if signed {
				f.named(x, fmt.Sprintf("(- (- %s) 1)", v.S))
			} else {
				bits, _, _ := intInfo(x.Type())
				f.named(x, fmt.Sprintf("(- %s %s)", pow2m1(bits), v.S))
			}
		}
	case token.ARROW:
		c.stats.conc++
		c.note("channel receive: received value unconstrained")
		res := f.freshVal(x.Type(), f.prefixSym()+x.Name()+"_recv")
		f.setVal(x, res)
		cur.assume(f.typeInv(res))
	default:
		f.unsupported("unop %s", x.Op)
	}
}

func pow2m1(bits int) string {
	switch bits {
	case 8:
		return "255"
	case 16:
		return "65535"
	case 32:
		return "4294967295"
	}
	return "18446744073709551615"
}

func (f *Frame) execIndexAddr(cur *blockCur, x *ssa.IndexAddr) {
	c := f.c
	base := f.val(x.X)
	idx := c.toIdx(f.val(x.Index))
	c.noteIdxTerm(idx)
	switch t := x.X.Type().Underlying().(type) {
	case *types.Slice:
		f.safety("index", cur, and(c.iLe(c.so.idxLit(0), idx), c.iLt(idx, fmt.Sprintf("(s_len %s)", base.S))), x, "")
		p := &Ptr{Root: fmt.Sprintf("(s_ref %s)", base.S), Obj: types.NewArray(t.Elem(), 0), ArrElem: t.Elem(),
			Path: []PathEl{{Field: -1, Index: c.iAdd(fmt.Sprintf("(s_off %s)", base.S), idx), T: t.Elem()}}}
		f.setVal(x, Val{T: x.Type(), P: p})
	case *types.Pointer:
		at := t.Elem().Underlying().(*types.Array)
		f.nilCheck(cur, base, x)
		f.safety("index", cur, and(c.iLe(c.so.idxLit(0), idx), c.iLt(idx, c.so.idxLit(at.Len()))), x, "")
		bp := c.ptrOf(base)
		np := &Ptr{Root: bp.Root, Obj: bp.Obj, ArrElem: bp.ArrElem, Path: append(append([]PathEl{}, bp.Path...), PathEl{Field: -1, Index: idx, T: at.Elem()})}
		f.setVal(x, Val{T: x.Type(), P: np})
	default:
		f.unsupported("IndexAddr on %s", x.X.Type())
	}
}

func (f *Frame) execSlice(cur *blockCur, x *ssa.Slice) {
	c := f.c
	base := f.val(x.X)
	zero := c.so.idxLit(0)
	lo := zero
	if x.Low != nil {
		lo = c.toIdx(f.val(x.Low))
	}
	switch t := x.X.Type().Underlying().(type) {
	case *types.Basic: // string
		n := fmt.Sprintf("(slen %s)", base.S)
		hi := n
		if x.High != nil {
			hi = c.toIdx(f.val(x.High))
		}
		f.safety("slice", cur, and(c.iLe(zero, lo), c.iLe(lo, hi), c.iLe(hi, n)), x, "")
		f.named(x, c.ssub(base.S, lo, hi))
	case *types.Slice:
		ln := fmt.Sprintf("(s_len %s)", base.S)
		cp := fmt.Sprintf("(s_cap %s)", base.S)
		hi := ln
		if x.High != nil {
			hi = c.toIdx(f.val(x.High))
		}
		mx := cp
		if x.Max != nil {
			mx = c.toIdx(f.val(x.Max))
		}
		f.safety("slice", cur, and(c.iLe(zero, lo), c.iLe(lo, hi), c.iLe(hi, mx), c.iLe(mx, cp)), x, "")
		f.named(x, fmt.Sprintf("(mk_slice (s_ref %s) %s %s %s)", base.S, c.iAdd(fmt.Sprintf("(s_off %s)", base.S), lo), c.iSub(hi, lo), c.iSub(mx, lo)))
	case *types.Pointer: // *array
		at := t.Elem().Underlying().(*types.Array)
		n := c.so.idxLit(at.Len())
		hi := n
		if x.High != nil {
			hi = c.toIdx(f.val(x.High))
		}
		mx := n
		if x.Max != nil {
			mx = c.toIdx(f.val(x.Max))
		}
		f.safety("slice", cur, and(c.iLe(zero, lo), c.iLe(lo, hi), c.iLe(hi, mx), c.iLe(mx, n)), x, "")
		bp := c.ptrOf(base)
		if len(bp.Path) > 0 || bp.ArrElem == nil {
			// an array embedded in another object: the slice views a synthetic backing array that holds the array's
			// current value; copy() through the slice is written back to the embedding object (execCopy). Other
			// writes through such a slice are not followed (noted).
			syn := f.freshRef(cur, f.prefixSym()+x.Name()+"_interior")
			k := c.so.heapArr(at.Elem())
			cur.st = cur.st.set(k, fmt.Sprintf("(store %s %s %s)", cur.st.get(k), syn, c.load(cur.st, bp, t.Elem())))
			v := f.named(x, fmt.Sprintf("(mk_slice %s %s %s %s)", syn, lo, c.iSub(hi, lo), c.iSub(mx, lo)))
			if c.interior == nil {
				c.interior = map[string]*Ptr{}
			}
			c.interior[v.S] = bp
			c.note("slice of an embedded array: only copy() into it is written back to the embedding object")
			return
		}
		f.named(x, fmt.Sprintf("(mk_slice %s %s %s %s)", bp.Root, lo, c.iSub(hi, lo), c.iSub(mx, lo)))
	default:
		f.unsupported("Slice on %s", x.X.Type())
	}
}

const maxAlloc = "140737488355328" // 2^47

func (f *Frame) execMakeSlice(cur *blockCur, x *ssa.MakeSlice) {
	c := f.c
	ln := c.toIdx(f.val(x.Len))
	cp := c.toIdx(f.val(x.Cap))
	zero := c.so.idxLit(0)
	// element count below 2^52 (with the in-memory size assumption this holds for len(x)*k, k <= 32)
	f.safety("makeslice", cur, and(c.iLe(zero, ln), c.iLe(ln, cp), c.iLt(cp, c.so.idxLit(1<<52))), x, "")
	if b := f.rootOption("alloc-bound"); b != "" {
		var n int64
		fmt.Sscanf(b, "%d", &n)
		f.safety("alloc", cur, c.iLe(cp, c.so.idxLit(n)), x, "")
	}
	ref := f.freshRef(cur, f.prefixSym()+x.Name()+"_arr")
	el := x.Type().Underlying().(*types.Slice).Elem()
	k := c.so.heapArr(el)
	h := cur.st.get(k)
	cur.st = cur.st.set(k, fmt.Sprintf("(store %s %s ((as const (Array %s %s)) %s))", h, ref, c.so.idxSort(), c.so.sortOf(el), c.so.zero(el)))
	f.named(x, fmt.Sprintf("(mk_slice %s %s %s %s)", ref, zero, ln, cp))
}

func (f *Frame) execConvert(cur *blockCur, x *ssa.Convert) {
	c := f.c
	v := f.val(x.X)
	from, to := x.X.Type(), x.Type()
	_, _, fi := intInfo(from)
	_, _, ti := intInfo(to)
	switch {
	case fi && ti:
		f.named(x, c.convertInt(v.S, from, to))
	case isString(from) && isString(to):
		f.setVal(x, Val{T: to, S: v.S})
	case fi && isString(to):
		c.uf("str_of_rune", fmt.Sprintf("(%s) Str", c.so.intSort(from)))
		f.named(x, fmt.Sprintf("(str_of_rune %s)", v.S))
	case isString(from) && isByteSlice(to):
		// fresh backing array holding the bytes
		ref := f.freshRef(cur, f.prefixSym()+x.Name()+"_bytes")
		k := c.so.heapArr(types.Typ[types.Byte])
		arr := c.declare(f.prefixSym()+x.Name()+"_arrv", fmt.Sprintf("(Array %s %s)", c.so.idxSort(), c.so.sortOf(types.Typ[types.Byte])))
		c.byteHeapAxiom(k, arr, true)
		if c.mode == ModeInt {
			cur.assume(fmt.Sprintf("(forall ((i Int)) (! (=> (and (<= 0 i) (< i (slen %s))) (= (select %s i) (sat %s i))) :pattern ((select %s i))))", v.S, arr, v.S, arr))
			// string([]byte(s)) == s
			c.bytesToStr(cur.st.get(k), "(mk_slice 0 0 0 0)")
			cur.assume(fmt.Sprintf("(= (str_of_bytes %s %s (slen %s)) %s)", arr, c.so.idxLit(0), v.S, v.S))
		}
		cur.st = cur.st.set(k, fmt.Sprintf("(store %s %s %s)", cur.st.get(k), ref, arr))
		f.named(x, fmt.Sprintf("(mk_slice %s %s (slen %s) (slen %s))", ref, c.so.idxLit(0), v.S, v.S))
	case isByteSlice(from) && isString(to):
		k := c.so.heapArr(types.Typ[types.Byte])
		f.named(x, c.bytesToStr(cur.st.get(k), v.S))
	case fi && isFloat(to):
		c.uf("int_to_flt", fmt.Sprintf("(%s) Flt", c.so.intSort(from)))
		f.named(x, fmt.Sprintf("(int_to_flt %s)", v.S))
	case isFloat(from) && ti:
		fn := "flt_to_" + c.so.typeName(to)
		c.uf(fn, fmt.Sprintf("(Flt) %s", c.so.intSort(to)))
		r := f.named(x, fmt.Sprintf("(%s %s)", fn, v.S))
		cur.assume(f.typeInv(r))
	case isFloat(from) && isFloat(to):
		if from.Underlying() == to.Underlying() {
			f.setVal(x, Val{T: to, S: v.S})
		} else {
			fn := "flt_cvt_" + c.so.typeName(to)
			c.uf(fn, "(Flt) Flt")
			f.named(x, fmt.Sprintf("(%s %s)", fn, v.S))
		}
	default:
		// pointer <-> unsafe.Pointer, etc.
		if isPointerLike(from) && isPointerLike(to) {
			f.setVal(x, Val{T: to, S: c.termOf(v)})
			return
		}
		f.unsupported("convert %s -> %s", from, to)
	}
}

func isPointerLike(t types.Type) bool {
	switch u := t.Underlying().(type) {
	case *types.Pointer:
		return true
	case *types.Basic:
		return u.Kind() == types.UnsafePointer || u.Kind() == types.Uintptr
	}
	return false
}

func isByteSlice(t types.Type) bool {
	s, ok := t.Underlying().(*types.Slice)
	if !ok {
		return false
	}
	b, ok := s.Elem().Underlying().(*types.Basic)
	return ok && (b.Kind() == types.Uint8)
}

// bytesToStr: string view of a byte slice in a given array heap
func (c *FuncCtx) bytesToStr(heap, sl string) string {
	byteArr := fmt.Sprintf("(Array %s %s)", c.so.idxSort(), c.so.sortOf(types.Typ[types.Byte]))
	c.needDecl("str_of_bytes", fmt.Sprintf("(declare-fun str_of_bytes (%s %s %s) Str)", byteArr, c.so.idxSort(), c.so.idxSort()))
	if !c.needed["str_of_bytes_ax"] {
		c.needed["str_of_bytes_ax"] = true
		if c.mode == ModeInt {
			c.axiom(fmt.Sprintf("(forall ((a %s) (o Int) (n Int)) (! (=> (>= n 0) (= (slen (str_of_bytes a o n)) n)) :pattern ((str_of_bytes a o n))))", byteArr), "str_of_bytes")
// the array may be ANY array of integers as far as the logic is concerned: only its elements that are bytes are
			// recovered as such (an unguarded equation contradicts 0 <= sat < 256); byte heaps of the program hold bytes
			// (byteHeapAxiom), so for them the guard is always met
			c.axiom(fmt.Sprintf("(forall ((a %s) (o Int) (n Int) (i Int)) (! (=> (and (<= 0 i) (< i n) (<= 0 (select a (+ o i))) (< (select a (+ o i)) 256)) (= (sat (str_of_bytes a o n) i) (select a (+ o i)))) :pattern ((sat (str_of_bytes a o n) i))))", byteArr), "str_of_bytes")
		}
	}
	return fmt.Sprintf("(str_of_bytes (select %s (s_ref %s)) (s_off %s) (s_len %s))", heap, sl, sl, sl)
}

func (f *Frame) execMakeInterface(cur *blockCur, x *ssa.MakeInterface) {
	c := f.c
	v := f.val(x.X)
	t := x.X.Type()
	id := c.typeID(t)
	var payload string
	if isPointerLike(t) || isChanFuncMap(t) {
		payload = c.termOf(v)
	} else {
		payload = fmt.Sprintf("(%s %s)", c.boxFn(t), v.S)
	}
	f.named(x, fmt.Sprintf("(mk_iface %d %s)", id, payload))
	if v.Clo != nil {
		val := f.vals[x]
		val.Clo = v.Clo
		f.vals[x] = val
	}
}

func isChanFuncMap(t types.Type) bool {
	switch t.Underlying().(type) {
	case *types.Chan, *types.Signature, *types.Map:
		return true
	}
	return false
}

func (c *FuncCtx) boxFn(t types.Type) string {
	name := "box_" + c.so.typeName(t)
	if !c.needed[name] {
		s := c.so.sortOf(t)
		c.needDecl(name, fmt.Sprintf("(declare-fun %s (%s) Int)", name, s))
		un := "un" + name
		c.needDecl(un, fmt.Sprintf("(declare-fun %s (Int) %s)", un, s))
		c.axiom(fmt.Sprintf("(forall ((x %s)) (! (= (%s (%s x)) x) :pattern ((%s x))))", s, un, name, name), name)
	}
	return name
}

func (f *Frame) execTypeAssert(cur *blockCur, x *ssa.TypeAssert) {
	c := f.c
	v := f.val(x.X)
	at := x.AssertedType
	var ok, res string
	var resVal Val
	if _, isIface := at.Underlying().(*types.Interface); isIface {
		okc := c.declare(f.prefixSym()+x.Name()+"_ok", "Bool")
		cur.assume(fmt.Sprintf("(=> %s (not (= %s iface_nil)))", okc, v.S))
		ok = okc
		resVal = Val{T: at, S: fmt.Sprintf("(ite %s %s iface_nil)", ok, v.S)}
	} else {
		id := c.typeID(at)
		ok = fmt.Sprintf("(= (i_tag %s) %d)", v.S, id)
		if isPointerLike(at) || isChanFuncMap(at) {
			res = fmt.Sprintf("(i_val %s)", v.S)
		} else {
			c.boxFn(at)
			res = fmt.Sprintf("(unbox_%s (i_val %s))", c.so.typeName(at), v.S)
		}
		resVal = Val{T: at, S: fmt.Sprintf("(ite %s %s %s)", ok, res, c.so.zero(at))}
	}
	if x.CommaOk {
		rn := c.define(f.prefixSym()+x.Name()+"_v", c.so.sortOf(at), resVal.S)
		on := c.define(f.prefixSym()+x.Name()+"_okv", "Bool", ok)
		f.setVal(x, Val{T: x.Type(), Tup: []Val{{T: at, S: rn}, {T: types.Typ[types.Bool], S: on}}})
		return
	}
	f.safety("assert-type", cur, ok, x, "")
	f.named(x, resVal.S)
}

func (f *Frame) execPanic(cur *blockCur, x *ssa.Panic) {
	f.panicHere(cur, x, "explicit panic")
}

func (f *Frame) panicHere(cur *blockCur, in ssa.Instruction, what string) {
	// allowed panics: contract `panics when E` (evaluated in the entry state)
	root := f
	for root.callerFrame != nil {
		root = root.callerFrame
	}
	goal := "false"
	if root.con != nil && len(root.con.PanicsWhen) > 0 && f == root {
		var alts []string
		for _, cl := range root.con.PanicsWhen {
			alts = append(alts, f.evalClauseAt(cl, nil, f.entry, nil))
		}
		goal = or(alts...)
	}
	src := f.c.eng.exprTextAt(f.rootFn(), in)
	f.c.addObligation(&Obligation{Name: f.oblName("panic", src), Class: "panic", Props: f.panicProps(), Guard: cur.reach, Goal: goal,
		Pos: f.c.eng.posString(in.Pos()), Src: src})
	f.panicPaths = append(f.panicPaths, cur.reach)
	cur.dead = true
}

func (f *Frame) execReturn(cur *blockCur, x *ssa.Return) {
	var vs []Val
	for _, r := range x.Results {
		vs = append(vs, f.val(r))
	}
	f.rets = append(f.rets, retPoint{reach: cur.reach, st: cur.st, vals: vs})
	if f.callerFrame == nil {
		for _, v := range vs {
			f.checkTypeInv(cur, v, x, "returned value")
		}
	}
	if f.callerFrame == nil && f.con != nil {
		// `panics when E` is exact: a normal return is only possible when E did not hold at entry
		for _, cl := range f.con.PanicsWhen {
			t := f.evalClauseAt(cl, nil, f.entry, nil)
			f.c.addObligation(&Obligation{Name: f.oblName("must-panic", clauseLabel(cl)), Class: "must-panic", Props: f.clauseProps(cl), Guard: cur.reach, Goal: not(t),
				Src: "returns normally only if not (" + cl.Text + ")"})
		}
		for _, cl := range f.con.Ensures {
			var t string
			if strings.Contains(cl.Label, "where-defined") {
				// a clause about local variables: it applies to the returns at which those locals exist
				skipped := false
				func() {
					defer func() {
						if r := recover(); r != nil {
							if u, ok := r.(unsupportedErr); ok && (strings.Contains(u.msg, "unknown identifier") || strings.Contains(u.msg, "precedes this point")) {
								skipped = true
								return
							}
							panic(r)
						}
					}()
					t = f.evalClauseAt(cl, cur.b, cur.st, vs)
				}()
				if !skipped {
					if f.c.whereDefinedHit == nil {
						f.c.whereDefinedHit = map[*Clause]int{}
					}
					f.c.whereDefinedHit[cl]++
				}
				if skipped {
					f.c.note("clause %s does not apply at an early return (its locals are not defined yet, or the call it speaks about has not happened)", clauseLabel(cl))
					continue
				}
			} else {
				t = f.evalClauseAt(cl, cur.b, cur.st, vs)
			}
			f.c.addObligation(&Obligation{Name: f.oblName("ensures", clauseLabel(cl)), Class: "ensures", Props: f.clauseProps(cl), Guard: cur.reach, Goal: t, Src: cl.Text})
		}
	}
	cur.dead = true
}

// recordEffect appends an event to the ghost effect trace (used by delegation / trace contracts).
func (f *Frame) recordEffect(cur *blockCur, kind string, args []Val) {
	// the trace is a heap-like ghost: an Int counter per kind; kept simple
	k := HeapKey{Name: "G_effects", Sort: "Int"}
	h := cur.st.get(k)
	cur.st = cur.st.set(k, fmt.Sprintf("(+ %s 1)", h))
	_ = args
	_ = kind
}

func (f *Frame) execSelect(cur *blockCur, x *ssa.Select) {
	c := f.c
	c.stats.conc++
	c.note("select: every branch is possible; received values unconstrained")
	n := len(x.States)
	idx := c.declare(f.prefixSym()+x.Name()+"_idx", c.so.idxSort())
	lo := int64(0)
	if !x.Blocking {
		lo = -1
	}
	cur.assume(and(c.iLe(c.so.idxLit(lo), idx), c.iLt(idx, c.so.idxLit(int64(n)))))
	tup := []Val{{T: types.Typ[types.Int], S: idx}, {T: types.Typ[types.Bool], S: c.declare(f.prefixSym()+x.Name()+"_rok", "Bool")}}
	for i, s := range x.States {
		if s.Dir == types.RecvOnly {
			et := s.Chan.Type().Underlying().(*types.Chan).Elem()
			v := f.freshVal(et, fmt.Sprintf("%s%s_r%d", f.prefixSym(), x.Name(), i))
			cur.assume(f.typeInv(v))
			tup = append(tup, v)
		}
	}
	f.setVal(x, Val{T: x.Type(), Tup: tup})
}

// ---------------------------------------------------------------------------
// maps

func (f *Frame) mapKeys(mt *types.Map) (HeapKey, HeapKey, HeapKey) {
	so := f.c.so
	return so.heapMapDom(mt.Key(), mt.Elem()), so.heapMapVal(mt.Key(), mt.Elem()), so.heapMapLen(mt.Key(), mt.Elem())
}

func (f *Frame) execMakeMap(cur *blockCur, x *ssa.MakeMap) {
	c := f.c
	mt := x.Type().Underlying().(*types.Map)
	ref := f.freshRef(cur, f.prefixSym()+x.Name()+"_map")
	kd, _, kl := f.mapKeys(mt)
	cur.st = cur.st.set(kd, fmt.Sprintf("(store %s %s ((as const (Array %s Bool)) false))", cur.st.get(kd), ref, c.so.sortOf(mt.Key())))
	cur.st = cur.st.set(kl, fmt.Sprintf("(store %s %s 0)", cur.st.get(kl), ref))
	f.setVal(x, Val{T: x.Type(), S: ref})
	if f.callerFrame == nil && !escapes(x) {
		// a map the function made and never hands to anyone: unknown code cannot touch it
		_, kv, _ := f.mapKeys(mt)
		c.localObjs = append(c.localObjs, localObj{ref: ref, keys: []HeapKey{kd, kv, kl}, alloc: x})
	}
}

func (f *Frame) execMapUpdate(cur *blockCur, x *ssa.MapUpdate) {
	c := f.c
	mt := x.Map.Type().Underlying().(*types.Map)
	m := f.val(x.Map)
	k := c.termOf(f.val(x.Key))
	v := c.termOf(f.val(x.Value))
	f.safety("nil", cur, fmt.Sprintf("(not (= %s 0))", m.S), x, "")
	kd, kv, kl := f.mapKeys(mt)
	d, vv, l := cur.st.get(kd), cur.st.get(kv), cur.st.get(kl)
	cur.st = cur.st.set(kl, fmt.Sprintf("(store %s %s (ite (select (select %s %s) %s) (select %s %s) (+ (select %s %s) 1)))", l, m.S, d, m.S, k, l, m.S, l, m.S))
	cur.st = cur.st.set(kd, fmt.Sprintf("(store %s %s (store (select %s %s) %s true))", d, m.S, d, m.S, k))
	cur.st = cur.st.set(kv, fmt.Sprintf("(store %s %s (store (select %s %s) %s %s))", vv, m.S, vv, m.S, k, v))
}

func (f *Frame) mapDelete(cur *blockCur, m Val, key Val) {
	c := f.c
	mt := m.T.Underlying().(*types.Map)
	k := c.termOf(key)
	kd, _, kl := f.mapKeys(mt)
	d, l := cur.st.get(kd), cur.st.get(kl)
	cur.st = cur.st.set(kl, fmt.Sprintf("(store %s %s (ite (select (select %s %s) %s) (- (select %s %s) 1) (select %s %s)))", l, m.S, d, m.S, k, l, m.S, l, m.S))
	cur.st = cur.st.set(kd, fmt.Sprintf("(store %s %s (store (select %s %s) %s false))", d, m.S, d, m.S, k))
}

func (f *Frame) execLookup(cur *blockCur, x *ssa.Lookup) {
	c := f.c
	base := f.val(x.X)
	if isString(x.X.Type()) {
		idx := c.toIdx(f.val(x.Index))
		f.safety("index", cur, and(c.iLe(c.so.idxLit(0), idx), c.iLt(idx, fmt.Sprintf("(slen %s)", base.S))), x, "")
		f.named(x, fmt.Sprintf("(sat %s %s)", base.S, idx))
		return
	}
	mt := x.X.Type().Underlying().(*types.Map)
	k := c.termOf(f.val(x.Index))
	kd, kv, _ := f.mapKeys(mt)
	has := fmt.Sprintf("(select (select %s %s) %s)", cur.st.get(kd), base.S, k)
	// a nil map has no entries
	has = fmt.Sprintf("(and (not (= %s 0)) %s)", base.S, has)
	val := fmt.Sprintf("(ite %s (select (select %s %s) %s) %s)", has, cur.st.get(kv), base.S, k, c.so.zero(mt.Elem()))
	if x.CommaOk {
		vn := c.define(f.prefixSym()+x.Name()+"_v", c.so.sortOf(mt.Elem()), val)
		on := c.define(f.prefixSym()+x.Name()+"_ok", "Bool", has)
		vv := Val{T: mt.Elem(), S: vn}
		cur.assume(f.typeInv(vv))
		f.setVal(x, Val{T: x.Type(), Tup: []Val{vv, {T: types.Typ[types.Bool], S: on}}})
		return
	}
	r := f.named(x, val)
	cur.assume(f.typeInv(r))
}

type rangeIter struct {
	x   ssa.Value
	str bool
}

func (f *Frame) execRange(cur *blockCur, x *ssa.Range) {
	f.setVal(x, Val{T: x.Type(), S: "0"})
	if f.c.iters == nil {
		f.c.iters = map[ssa.Value]rangeIter{}
	}
	f.c.iters[x] = rangeIter{x: x.X, str: isString(x.X.Type())}
	if mt, ok := x.X.Type().Underlying().(*types.Map); ok {
		// ghost set of the keys already yielded by this iteration (`visited(k)` in loop invariants)
		k := f.visitedKey(x, mt)
		cur.st = cur.st.set(k, fmt.Sprintf("((as const %s) false)", k.Sort))
		f.c.lastMapRange = x
	}
}

func (f *Frame) visitedKey(x *ssa.Range, mt *types.Map) HeapKey {
	return HeapKey{Name: "G_visited_" + quoteSymInner(f.prefixSym()+x.Name()), Sort: fmt.Sprintf("(Array %s Bool)", f.c.so.sortOf(mt.Key()))}
}

func (f *Frame) execNext(cur *blockCur, x *ssa.Next) {
	c := f.c
	it := c.iters[x.Iter]
	if x.IsString {
		f.unsupported("range over string")
	}
	rng := x.Iter.(*ssa.Range)
	m := f.val(rng.X)
	mt := rng.X.Type().Underlying().(*types.Map)
	_ = it
	c.note("range over map: arbitrary element order, every iteration yields some present key")
	ok := c.declare(f.prefixSym()+x.Name()+"_ok", "Bool")
	kv := f.freshVal(mt.Key(), f.prefixSym()+x.Name()+"_k")
	kd, kvv, _ := f.mapKeys(mt)
	present := fmt.Sprintf("(and (not (= %s 0)) (select (select %s %s) %s))", m.S, cur.st.get(kd), m.S, c.termOf(kv))
	// Go visits every key that stays in the map exactly once: the key yielded is present and not yet visited;
	// the iteration ends only when every present key has been visited
	vk := f.visitedKey(rng, mt)
	vis := cur.st.get(vk)
	cur.assume(fmt.Sprintf("(=> %s (and %s (not (select %s %s))))", ok, present, vis, c.termOf(kv)))
	ks := c.so.sortOf(mt.Key())
	cur.assume(fmt.Sprintf("(=> (not %s) (forall ((k!v %s)) (! (=> (and (not (= %s 0)) (select (select %s %s) k!v)) (select %s k!v)) :pattern ((select %s k!v)))))",
		ok, ks, m.S, cur.st.get(kd), m.S, vis, vis))
	cur.st = cur.st.set(vk, fmt.Sprintf("(ite %s (store %s %s true) %s)", ok, vis, c.termOf(kv), vis))
	cur.assume(f.typeInv(kv))
	vterm := c.define(f.prefixSym()+x.Name()+"_v", c.so.sortOf(mt.Elem()), fmt.Sprintf("(select (select %s %s) %s)", cur.st.get(kvv), m.S, c.termOf(kv)))
	vv := Val{T: mt.Elem(), S: vterm}
	cur.assume(f.typeInv(vv))
	f.setVal(x, Val{T: x.Type(), Tup: []Val{{T: types.Typ[types.Bool], S: ok}, kv, vv}})
}

func exprString(s string) string { return strings.Join(strings.Fields(s), " ") }

func (f *Frame) rootOption(name string) string {
	x := f
	for x.callerFrame != nil {
		x = x.callerFrame
	}
	if x.con == nil {
		return ""
	}
	return x.con.Options[name]
}
