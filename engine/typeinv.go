package main

// User-declared type invariants (`//@ typeinv T E` over `self`).
//
// Assumed for: parameters, call results, received values, and values loaded from memory (memory that the
// function itself did not allocate is assumed to hold valid values; memory it allocated holds what it stored,
// which flows back by equality). Checked (class `typeinv`): values returned, values passed by value to other
// functions, and values stored into memory the function did not allocate.

import (
	"fmt"
	"go/types"

	"golang.org/x/tools/go/ssa"
)

func (c *FuncCtx) typeInvClause(t types.Type) (*Clause, *types.Package) {
	n, ok := t.(*types.Named)
	if !ok || n.Obj().Pkg() == nil || c.eng == nil {
		return nil, nil
	}
	cl := c.eng.cs.TypeInvs[n.Obj().Pkg().Path()+"::"+n.Obj().Name()]
	return cl, n.Obj().Pkg()
}

// userTypeInv returns the invariant of a struct value as a Bool term ("" if none).
func (c *FuncCtx) userTypeInv(v Val) string {
	cl, pkg := c.typeInvClause(v.T)
	if cl == nil || v.S == "" {
		return ""
	}
	env := &SpecEnv{c: c, pkg: pkg, names: map[string]Val{"self": {T: v.T, S: v.S}}}
	t, err := env.evalBool(cl.Expr)
	if err != nil {
		panic(unsupportedErr{fmt.Sprintf("typeinv %s: %v", v.T, err)})
	}
	c.assume(fmt.Sprintf("type invariant of %s assumed for inputs and foreign memory: %s", types.TypeString(v.T, shortQual), cl.Text))
	return t
}

func (c *FuncCtx) hasTypeInv(t types.Type) bool {
	cl, _ := c.typeInvClause(t)
	return cl != nil
}

// checkTypeInv emits an obligation that v satisfies its type invariant.
func (f *Frame) checkTypeInv(cur *blockCur, v Val, in ssa.Instruction, what string) {
	if v.Tup != nil {
		for _, x := range v.Tup {
			f.checkTypeInv(cur, x, in, what)
		}
		return
	}
	if v.T == nil || v.P != nil || !f.c.hasTypeInv(v.T) {
		return
	}
	t := f.c.userTypeInv(v)
	if t == "" || t == "true" {
		return
	}
	f.c.addObligation(&Obligation{Name: f.oblName("typeinv", what+":"+f.c.eng.exprTextAt(f.rootFn(), in)), Class: "typeinv", Props: f.safetyProps("typeinv"),
		Guard: cur.reach, Goal: t, Pos: f.c.eng.posString(in.Pos()), Src: what})
}

func (f *Frame) isLocalRoot(root string) bool {
	for _, a := range f.c.allAllocs {
		if a == root {
			return true
		}
	}
	for _, a := range f.c.allAllocs {
		if fmt.Sprintf("(s_ref %s)", a) == root {
			return true
		}
	}
	return false
}
