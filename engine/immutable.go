package main

// Immutable fields: `//@ immutable [Cxx] T f1 f2 ...`
//
// Fields of a struct type that are written only while the object is being constructed (stores through the pointer
// a function has just obtained from its own allocation). Every other function sees them as constants of the object,
// so unknown code (a call without contract, `modifies *`, a loop with unknown effects) leaves them unchanged for every
// object that existed before it ran.
//
// The declaration is CHECKED, syntactically, over every function of the loaded program (obligation class
// `immutable`): each ssa.Store to one of the fields, and each store of a whole T value through a *T, must go
// through an address rooted in an allocation of the storing function itself. reflect / unsafe writes are not seen
// (listed as an assumption).

import (
	"fmt"
	"go/types"
	"sort"
	"strings"

	"golang.org/x/tools/go/ssa"
)

type Immutable struct {
	Pkg, Type string
	Fields    []string
	Props     []string
	Writers   []string // `writers=F,G`: functions that may write the fields of ANY object of the type (besides allocators)
}

func (e *Engine) immutableNamed(im *Immutable) (*types.Named, *types.Struct) {
	tp := e.typesPkg(im.Pkg)
	if tp == nil {
		return nil, nil
	}
	obj, _ := tp.Scope().Lookup(im.Type).(*types.TypeName)
	if obj == nil {
		return nil, nil
	}
	n, _ := types.Unalias(obj.Type()).(*types.Named)
	if n == nil {
		return nil, nil
	}
	st, _ := n.Underlying().(*types.Struct)
	return n, st
}

// immutableKey: is the heap with this name the heap of a declared immutable field?
func (c *FuncCtx) immutableKey(name string) bool {
	if c.eng == nil || len(c.eng.cs.Immutables) == 0 {
		return false
	}
	if c.immutKeys == nil {
		c.immutKeys = map[string]string{}
		for _, im := range c.eng.cs.Immutables {
			n, st := c.eng.immutableNamed(im)
			if st == nil {
				continue
			}
			for i := 0; i < st.NumFields(); i++ {
				for _, f := range im.Fields {
					if st.Field(i).Name() == f {
						c.immutKeys[c.so.heapField(n, st, i).Name] = im.Type + "." + f
					}
				}
			}
		}
	}
	_, ok := c.immutKeys[name]
	return ok
}

// immutablePreserved: the new heap symbol agrees with the heap of the earlier state on every object that existed then.
func (c *FuncCtx) immutablePreserved(k HeapKey, sym string, before *State) {
	old := before.get(k)
	w := before.watermark()
	c.axiom(fmt.Sprintf("(forall ((p!im Int)) (! (=> (<= p!im %s) (= (select %s p!im) (select %s p!im))) :pattern ((select %s p!im))))", w, sym, old, sym), sym)
	c.note("field %s is written only by its declared writers / allocators (checked syntactically): unknown code leaves it unchanged", c.immutKeys[k.Name])
	for _, im := range c.eng.cs.Immutables {
		if len(im.Writers) > 0 && strings.HasPrefix(c.immutKeys[k.Name], im.Type+".") {
			c.assume("unknown code called from the verified function does not call back into the declared writers of " + c.immutKeys[k.Name] + " (" + strings.Join(im.Writers, ", ") + ")")
		}
	}
}

// immutableObligations: the syntactic check, one obligation per declared field.
func (e *Engine) immutableObligations(prop string) (map[*Obligation]*FuncCtx, []*Obligation) {
	ctxs := map[*Obligation]*FuncCtx{}
	var obls []*Obligation
	for _, im := range e.cs.Immutables {
		if !hasProp(im.Props, prop) {
			continue
		}
		n, st := e.immutableNamed(im)
		bad := map[string][]string{}
		if st == nil {
			for _, f := range im.Fields {
				bad[f] = append(bad[f], "type "+im.Type+" not found in "+im.Pkg)
			}
		} else {
			idx := map[int]string{}
			for i := 0; i < st.NumFields(); i++ {
				for _, f := range im.Fields {
					if st.Field(i).Name() == f {
						idx[i] = f
					}
				}
			}
			for _, f := range im.Fields {
				found := false
				for _, g := range idx {
					if g == f {
						found = true
					}
				}
				if !found {
					bad[f] = append(bad[f], "no such field")
				}
			}
			for fn := range ssautilAllFunctions(e.prog) {
				if fn == nil {
					continue
				}
				for _, b := range fn.Blocks {
					for _, in := range b.Instrs {
						stI, ok := in.(*ssa.Store)
						if !ok {
							continue
						}
						if fa, ok := stI.Addr.(*ssa.FieldAddr); ok {
							pt, _ := fa.X.Type().Underlying().(*types.Pointer)
							if pt == nil || !types.Identical(types.Unalias(pt.Elem()), n) {
								continue
							}
							f, hit := idx[fa.Field]
							if !hit {
								continue
							}
							if _, own := fa.X.(*ssa.Alloc); !own && !im.isWriter(fn) {
								bad[f] = append(bad[f], fmt.Sprintf("%s writes %s.%s of an object it did not allocate (%s)", fn.String(), im.Type, f, e.posString(in.Pos())))
							}
							continue
						}
						// whole-value store through *T
						pt, _ := stI.Addr.Type().Underlying().(*types.Pointer)
						if pt != nil && types.Identical(types.Unalias(pt.Elem()), n) {
							if _, own := stI.Addr.(*ssa.Alloc); !own && !im.isWriter(fn) {
								for _, f := range im.Fields {
									bad[f] = append(bad[f], fmt.Sprintf("%s overwrites a whole %s it did not allocate (%s)", fn.String(), im.Type, e.posString(in.Pos())))
								}
							}
						}
					}
				}
			}
		}
		fields := append([]string(nil), im.Fields...)
		sort.Strings(fields)
		for _, f := range fields {
			c := newFuncCtx(e, ModeInt, "immutable")
			c.assume("immutable-field check is syntactic over go/ssa: writes through reflect or unsafe are not seen")
			ob := &Obligation{Name: fmt.Sprintf("%s.%s#immutable:%s", shortPkg(im.Pkg), im.Type, f), Class: "immutable", Props: im.Props, Guard: "true", Goal: "true",
				Src: "field is written only during construction, by the allocating function"}
			if len(bad[f]) == 0 {
				ob.Raw = "(assert false)\n(check-sat)\n"
			} else {
				ob.Raw = "; " + strings.Join(bad[f], "\n; ") + "\n(check-sat)\n"
				ob.Src += " — VIOLATED: " + strings.Join(bad[f], "; ")
			}
			c.addObligation(ob)
			ob.Func = "immutable"
			ctxs[ob] = c
			obls = append(obls, ob)
		}
	}
	return ctxs, obls
}

// isWriter: fn is one of the declared writers (matched by its display name without the package).
func (im *Immutable) isWriter(fn *ssa.Function) bool {
	if len(im.Writers) == 0 {
		return false
	}
	n := fnDisplayName(fn)
	if i := strings.Index(n, "."); i >= 0 {
		n = n[i+1:]
	}
	for _, w := range im.Writers {
		if w == n {
			return true
		}
	}
	return false
}

func shortPkg(p string) string {
	if i := strings.LastIndex(p, "/"); i >= 0 {
		return p[i+1:]
	}
	return p
}
