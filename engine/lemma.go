package main

import (
	"fmt"
	"go/types"
	"os"
	"path/filepath"
)

// lemmaObligations: standalone spec-level lemmas tagged with the property.
func (e *Engine) lemmaObligations(prop string) (map[*Obligation]*FuncCtx, []*Obligation, error) {
	ctxs := map[*Obligation]*FuncCtx{}
	var obls []*Obligation
	for _, lm := range e.cs.Lemmas {
		if !hasProp(lm.Props, prop) {
			continue
		}
		if lm.RawFile != "" {
			data, err := os.ReadFile(lm.RawFile)
			if err != nil {
				return ctxs, obls, fmt.Errorf("lemma %s: %v", lm.Name, err)
			}
			c := newFuncCtx(e, lm.Mode, "lemma")
			c.assume("lemma " + lm.Name + " is stated directly in SMT-LIB (" + filepath.Base(lm.RawFile) + "); its link to the code is the contract that names the same spec function")
			ob := &Obligation{Name: "lemma#" + lm.Name, Class: "lemma", Props: lm.Props, Guard: "true", Goal: "true", Src: "SMT-LIB lemma " + filepath.Base(lm.RawFile), Raw: string(data)}
			c.addObligation(ob)
			ob.Func = "lemma"
			ctxs[ob] = c
			obls = append(obls, ob)
			continue
		}
		c := newFuncCtx(e, lm.Mode, "lemma")
		// a lemma that is also used as an axiom (`use`) must not assume itself, nor any lemma stated after it
		c.inLemma = true
		c.lemmaAxLimit = len(e.cs.Axioms)
		for i, ax := range e.cs.Axioms {
			if ax.Proved && ax.Text == lm.Text {
				c.lemmaAxLimit = i
				break
			}
		}
		var pkg *types.Package
		if sp := e.spkgs[lm.Pkg]; sp != nil {
			pkg = sp.Pkg
		}
		env := &SpecEnv{c: c, pkg: pkg, names: map[string]Val{}, st: c.newBase()}
		env.old = env.st
		t, err := env.evalBool(lm.Expr)
		if err != nil {
			return ctxs, obls, fmt.Errorf("lemma %s: %v", lm.Name, err)
		}
		ob := &Obligation{Name: "lemma#" + lm.Name, Class: "lemma", Props: lm.Props, Guard: "true", Goal: t, Src: lm.Text, ExpectSat: lm.Expect == "sat"}
		c.addObligation(ob)
		ob.Func = "lemma"
		ctxs[ob] = c
		obls = append(obls, ob)
	}
	return ctxs, obls, nil
}
