package main

// Go type -> SMT sort mapping, datatype declarations and heap naming.

import (
	"fmt"
	"go/types"
	"regexp"
	"sort"
	"strings"
)

// byte and rune are aliases of uint8 and int32: a []byte and a []uint8 are the same memory class
var aliasRe = regexp.MustCompile(`\b(byte|rune)\b`)

// Mode of integer encoding for a function.
type Mode int

const (
	ModeInt Mode = iota
	ModeBV
)

// Sorts holds the declarations needed by one query family (one function).
type Sorts struct {
	mode     Mode
	decls    []string          // ordered datatype/sort declarations
	declared map[string]bool   // sort name -> emitted
	structs  map[string]*types.Struct
	qual     types.Qualifier
	names    map[types.Type]string
}

func newSorts(mode Mode) *Sorts {
	return &Sorts{mode: mode, declared: map[string]bool{}, structs: map[string]*types.Struct{}, names: map[types.Type]string{}}
}

func sanitize(s string) string {
	var b strings.Builder
	for _, r := range s {
		switch {
		case r >= 'a' && r <= 'z', r >= 'A' && r <= 'Z', r >= '0' && r <= '9', r == '_':
			b.WriteRune(r)
		case r == '.' || r == '/':
			b.WriteByte('_')
		case r == '*':
			b.WriteString("P")
		case r == '[':
			b.WriteString("L")
		case r == ']':
			b.WriteString("J")
		default:
			b.WriteString("_")
		}
	}
	return b.String()
}

func shortQual(p *types.Package) string {
	// repository packages and well-known top-level standard packages by name; everything else by full path so that
	// e.g. sync.Mutex and internal/sync.Mutex get different symbols
	if strings.HasPrefix(p.Path(), "github.com/redis/rueidis") || !strings.Contains(p.Path(), "/") {
		return p.Name()
	}
	switch p.Path() {
	case "sync/atomic", "net/url", "crypto/tls", "encoding/binary", "encoding/json":
		return p.Name()
	}
	return p.Path()
}

// typeName gives a stable identifier for a Go type usable inside SMT symbols.
func (s *Sorts) typeName(t types.Type) string {
	if n, ok := s.names[t]; ok {
		return n
	}
	if u := unaliasDeep(t); u != t {
		// `type Builder = cmds.Builder`: an alias is the same type, hence the same memory class and the same sort
		n := s.typeName(u)
		s.names[t] = n
		return n
	}
	if b, ok := t.(*types.Basic); ok && b.Kind() < types.UntypedBool && int(b.Kind()) < len(types.Typ) && types.Typ[b.Kind()] != t {
		// byte / rune are aliases: one memory class with uint8 / int32
		n := s.typeName(types.Typ[b.Kind()])
		s.names[t] = n
		return n
	}
	n := sanitize(aliasRe.ReplaceAllStringFunc(types.TypeString(t, shortQual), func(w string) string {
		if w == "byte" {
			return "uint8"
		}
		return "int32"
	}))
	if len(n) > 60 {
		n = n[:50] + fmt.Sprintf("_%x", hashStr(n))
	}
	s.names[t] = n
	return n
}

func hashStr(s string) uint32 {
	var h uint32 = 2166136261
	for i := 0; i < len(s); i++ {
		h ^= uint32(s[i])
		h *= 16777619
	}
	return h
}

func intInfo(t types.Type) (bits int, signed bool, ok bool) {
	b, ok2 := t.Underlying().(*types.Basic)
	if !ok2 {
		return 0, false, false
	}
	switch b.Kind() {
	case types.Int, types.Int64, types.UntypedInt, types.UntypedRune:
		return 64, true, true
	case types.Int32:
		return 32, true, true
	case types.Int16:
		return 16, true, true
	case types.Int8:
		return 8, true, true
	case types.Uint, types.Uint64, types.Uintptr:
		return 64, false, true
	case types.Uint32:
		return 32, false, true
	case types.Uint16:
		return 16, false, true
	case types.Uint8:
		return 8, false, true
	}
	return 0, false, false
}

func isString(t types.Type) bool {
	b, ok := t.Underlying().(*types.Basic)
	return ok && b.Info()&types.IsString != 0
}
func isBool(t types.Type) bool {
	b, ok := t.Underlying().(*types.Basic)
	return ok && b.Info()&types.IsBoolean != 0
}
func isFloat(t types.Type) bool {
	b, ok := t.Underlying().(*types.Basic)
	return ok && b.Info()&types.IsFloat != 0
}

// intSort returns the SMT sort of an integer of the given Go type.
func (s *Sorts) intSort(t types.Type) string {
	if s.mode == ModeBV {
		bits, _, _ := intInfo(t)
		return fmt.Sprintf("(_ BitVec %d)", bits)
	}
	return "Int"
}

// idxSort is the sort of Go `int` (used for array indices and lengths).
func (s *Sorts) idxSort() string {
	if s.mode == ModeBV {
		return "(_ BitVec 64)"
	}
	return "Int"
}

// sortOf maps a Go type to an SMT sort, declaring datatypes on demand.
func (s *Sorts) sortOf(t types.Type) string {
	switch u := t.Underlying().(type) {
	case *types.Basic:
		switch {
		case u.Info()&types.IsBoolean != 0:
			return "Bool"
		case u.Info()&types.IsInteger != 0:
			return s.intSort(t)
		case u.Info()&types.IsString != 0:
			return "Str"
		case u.Info()&types.IsFloat != 0:
			return "Flt"
		case u.Kind() == types.UnsafePointer:
			return "Int"
		case u.Kind() == types.UntypedNil:
			return "Int"
		}
		return "Int"
	case *types.Pointer, *types.Chan, *types.Signature, *types.Map:
		return "Int"
	case *types.Slice:
		return "Slice"
	case *types.Array:
		return fmt.Sprintf("(Array %s %s)", s.idxSort(), s.sortOf(u.Elem()))
	case *types.Interface:
		return "Iface"
	case *types.Struct:
		return s.structSort(t, u)
	case *types.Tuple:
		return "Int" // never used as a term
	case *types.TypeParam:
		return "Int"
	}
	return "Int"
}

func (s *Sorts) structSort(t types.Type, u *types.Struct) string {
	name := "T_" + s.typeName(t)
	if s.declared[name] {
		return name
	}
	s.declared[name] = true
	s.structs[name] = u
	// declare field sorts first (may declare nested datatypes)
	var fs []string
	for i := 0; i < u.NumFields(); i++ {
		fs = append(fs, fmt.Sprintf("(%s %s)", s.fieldSel(name, u, i), s.sortOf(u.Field(i).Type())))
	}
	if len(fs) == 0 {
		s.decls = append(s.decls, fmt.Sprintf("(declare-datatype %s ((mk_%s)))", name, name))
	} else {
		s.decls = append(s.decls, fmt.Sprintf("(declare-datatype %s ((mk_%s %s)))", name, name, strings.Join(fs, " ")))
	}
	return name
}

func (s *Sorts) fieldSel(sortName string, u *types.Struct, i int) string {
	fn := u.Field(i).Name()
	if fn == "_" {
		fn = fmt.Sprintf("blank%d", i)
	}
	return fmt.Sprintf("%s_%s", sortName[2:], fn)
}

// zero value term of a type
func (s *Sorts) zero(t types.Type) string {
	switch u := t.Underlying().(type) {
	case *types.Basic:
		switch {
		case u.Info()&types.IsBoolean != 0:
			return "false"
		case u.Info()&types.IsInteger != 0:
			return s.intLit(t, 0)
		case u.Info()&types.IsString != 0:
			return "str_empty"
		case u.Info()&types.IsFloat != 0:
			return "flt_zero"
		}
		return "0"
	case *types.Pointer, *types.Chan, *types.Signature, *types.Map:
		return "0"
	case *types.Slice:
		return fmt.Sprintf("(mk_slice 0 %s %s %s)", s.idxLit(0), s.idxLit(0), s.idxLit(0))
	case *types.Array:
		return fmt.Sprintf("((as const %s) %s)", s.sortOf(t), s.zero(u.Elem()))
	case *types.Interface:
		return "iface_nil"
	case *types.Struct:
		name := s.structSort(t, u)
		if u.NumFields() == 0 {
			return "mk_" + name
		}
		var fs []string
		for i := 0; i < u.NumFields(); i++ {
			fs = append(fs, s.zero(u.Field(i).Type()))
		}
		return fmt.Sprintf("(mk_%s %s)", name, strings.Join(fs, " "))
	}
	return "0"
}

func (s *Sorts) idxLit(n int64) string {
	if s.mode == ModeBV {
		return fmt.Sprintf("(_ bv%d 64)", uint64(n))
	}
	if n < 0 {
		return fmt.Sprintf("(- %d)", -n)
	}
	return fmt.Sprintf("%d", n)
}

func (s *Sorts) intLit(t types.Type, n int64) string {
	if s.mode == ModeBV {
		bits, _, _ := intInfo(t)
		if bits == 0 {
			bits = 64
		}
		var m uint64 = uint64(n)
		if bits < 64 {
			m &= (uint64(1) << uint(bits)) - 1
		}
		return fmt.Sprintf("(_ bv%d %d)", m, bits)
	}
	if n < 0 {
		if n == -9223372036854775808 {
			return "(- 9223372036854775808)"
		}
		return fmt.Sprintf("(- %d)", -n)
	}
	return fmt.Sprintf("%d", n)
}

func (s *Sorts) uintLit(t types.Type, n uint64) string {
	if s.mode == ModeBV {
		bits, _, _ := intInfo(t)
		if bits == 0 {
			bits = 64
		}
		if bits < 64 {
			n &= (uint64(1) << uint(bits)) - 1
		}
		return fmt.Sprintf("(_ bv%d %d)", n, bits)
	}
	return fmt.Sprintf("%d", n)
}

// Heap keys -----------------------------------------------------------------

// heapField: per-(struct type, field) heap   F_<T>_<f> : Array Int S(fieldtype)
// heapObj:   non-struct pointee heap          H_<T>     : Array Int S(T)
// heapArr:   array / slice backing heap       A_<E>     : Array Int (Array Idx S(E))
type HeapKey struct {
	Name string
	Sort string
	Ref  string // "ptr" / "slice": the cells hold references (pointer, map, chan / slice header); "" otherwise
	Pkg  string // field heaps: import path of the package that declares the struct type ("" otherwise / unknown)
}

// refKind: how a value of type t carries an object reference.
func refKind(t types.Type) string {
	switch t.Underlying().(type) {
	case *types.Pointer, *types.Map, *types.Chan:
		return "ptr"
	case *types.Slice:
		return "slice"
	}
	return ""
}

func (s *Sorts) heapField(t types.Type, u *types.Struct, i int) HeapKey {
	tn := s.typeName(t)
	fn := u.Field(i).Name()
	if fn == "_" {
		fn = fmt.Sprintf("blank%d", i)
	}
	pk := ""
	if n, ok := types.Unalias(t).(*types.Named); ok && n.Obj().Pkg() != nil {
		pk = n.Obj().Pkg().Path()
	}
	return HeapKey{Name: fmt.Sprintf("F_%s_%s", tn, fn), Sort: fmt.Sprintf("(Array Int %s)", s.sortOf(u.Field(i).Type())), Ref: refKind(u.Field(i).Type()), Pkg: pk}
}

func (s *Sorts) heapObj(t types.Type) HeapKey {
	return HeapKey{Name: "H_" + s.typeName(t), Sort: fmt.Sprintf("(Array Int %s)", s.sortOf(t)), Ref: refKind(t)}
}

func (s *Sorts) heapArr(elem types.Type) HeapKey {
	return HeapKey{Name: "A_" + s.typeName(elem), Sort: fmt.Sprintf("(Array Int (Array %s %s))", s.idxSort(), s.sortOf(elem)), Ref: refKind(elem)}
}

func (s *Sorts) heapMapDom(k, v types.Type) HeapKey {
	return HeapKey{Name: "MD_" + s.typeName(k) + "_" + s.typeName(v), Sort: fmt.Sprintf("(Array Int (Array %s Bool))", s.sortOf(k))}
}
func (s *Sorts) heapMapVal(k, v types.Type) HeapKey {
	return HeapKey{Name: "MV_" + s.typeName(k) + "_" + s.typeName(v), Sort: fmt.Sprintf("(Array Int (Array %s %s))", s.sortOf(k), s.sortOf(v))}
}
func (s *Sorts) heapMapLen(k, v types.Type) HeapKey {
	return HeapKey{Name: "ML_" + s.typeName(k) + "_" + s.typeName(v), Sort: "(Array Int Int)"}
}

func sortedKeys[V any](m map[string]V) []string {
	var ks []string
	for k := range m {
		ks = append(ks, k)
	}
	sort.Strings(ks)
	return ks
}

// unaliasDeep replaces alias types (also inside pointers, slices, arrays, maps and channels) by the types they denote.
func unaliasDeep(t types.Type) types.Type {
	switch x := t.(type) {
	case *types.Alias:
		return unaliasDeep(types.Unalias(x))
	case *types.Pointer:
		if e := unaliasDeep(x.Elem()); e != x.Elem() {
			return types.NewPointer(e)
		}
	case *types.Slice:
		if e := unaliasDeep(x.Elem()); e != x.Elem() {
			return types.NewSlice(e)
		}
	case *types.Array:
		if e := unaliasDeep(x.Elem()); e != x.Elem() {
			return types.NewArray(e, x.Len())
		}
	case *types.Map:
		k, e := unaliasDeep(x.Key()), unaliasDeep(x.Elem())
		if k != x.Key() || e != x.Elem() {
			return types.NewMap(k, e)
		}
	case *types.Chan:
		if e := unaliasDeep(x.Elem()); e != x.Elem() {
			return types.NewChan(x.Dir(), e)
		}
	}
	return t
}
