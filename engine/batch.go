package main

import (
	"context"
	"os"
	"fmt"
	"strings"
	"time"
)

// dischargeBatch checks all obligations of one function context in a single incremental z3 process.
// Returns the wall time spent in the solver (ms).
func dischargeBatch(c *FuncCtx, obs []*Obligation, tmp string, gi int) int64 {
	for _, ob := range obs {
		if ob.Raw != "" {
			return 0 // raw SMT-LIB lemmas are run on their own
		}
	}
	c.mu.Lock()
	var b strings.Builder
	b.WriteString("(set-option :timeout 2500)\n(set-logic ALL)\n")
	for _, l := range c.prelude() {
		b.WriteString(l)
		b.WriteByte('\n')
	}
	for _, l := range c.so.decls {
		b.WriteString(l)
		b.WriteByte('\n')
	}
	for i := range c.defs {
		b.WriteString(c.defs[i].Text)
		b.WriteByte('\n')
	}
	for _, ob := range obs {
		b.WriteString("(push 1)\n")
		b.WriteString("(assert " + ob.Guard + ")\n")
		if ob.Cover {
			b.WriteString("(assert " + ob.Goal + ")\n")
		} else {
			b.WriteString("(assert (not " + ob.Goal + "))\n")
		}
		b.WriteString("(check-sat)\n(pop 1)\n")
	}
	c.mu.Unlock()
	file := writeTmp(tmp, fmt.Sprintf("batch%d.smt2", gi), b.String())
	if d := os.Getenv("GOWP_BATCHDUMP"); d != "" {
		os.MkdirAll(d, 0o755)
		os.WriteFile(fmt.Sprintf("%s/batch%d_%s.smt2", d, gi, sanitizeFile(c.fnName)), []byte(b.String()), 0o644)
	}
	start := time.Now()
	budget := 3*len(obs) + 5
	if budget > 120 {
		budget = 120
	}
	_, out, _ := runOne(context.Background(), solvers[0], file, budget)
	ms := time.Since(start).Milliseconds()
	var answers []string
	for _, ln := range strings.Split(out, "\n") {
		ln = strings.TrimSpace(ln)
		switch ln {
		case "sat", "unsat", "unknown", "timeout":
			answers = append(answers, ln)
		default:
			if strings.HasPrefix(ln, "(error") {
				// an ill-formed script invalidates the whole batch: fall back to individual queries
				return ms
			}
		}
	}
	if len(answers) != len(obs) {
		return ms
	}
	per := ms / int64(len(obs)+1)
	for i, ob := range obs {
		if answers[i] == "unsat" && !ob.Cover {
			ob.Status, ob.Solver, ob.Ms = "unsat", solvers[0].name+" (incremental batch)", per
		} else if answers[i] == "sat" && ob.Cover {
			ob.Status, ob.Solver, ob.Ms = "sat", solvers[0].name+" (incremental batch)", per
		}
	}
	return ms
}
