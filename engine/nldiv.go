package main

// Division and remainder by a NON-CONSTANT divisor (mode int).
//
// `x / y` and `x % y` with a variable y are nonlinear; a single such term is enough to send the solvers into nonlinear
// arithmetic for the whole query. Outside lemma proofs they are therefore opaque functions (nl_tdiv / nl_trem for
// signed, nl_div / nl_mod for unsigned operands) that come with their range facts only. Anything sharper (e.g. "the
// remainder of q*k + d by k is zero exactly when d == k") is a `lemma ... use`, proved once against the exact
// definitions (inside a lemma proof the same Go operators translate to tdiv/trem/div/mod) and then available as a
// quantified fact about the opaque functions.

// opaqueNLDiv: the function under verification asked for it (`option nldiv=opaque`); the default is the exact
// (nonlinear) definition, which the solvers handle when the divisor ranges over a few constants.
func (c *FuncCtx) opaqueNLDiv() bool {
	return c.rootCon != nil && c.rootCon.Options["nldiv"] == "opaque"
}

func (c *FuncCtx) nlDivDecls() {
	if c.needed["nl_div_decls"] {
		return
	}
	c.needed["nl_div_decls"] = true
	for _, fn := range []string{"nl_tdiv", "nl_trem", "nl_div", "nl_mod"} {
		c.addDef(Def{Sym: fn, Text: "(declare-fun " + fn + " (Int Int) Int)"})
	}
	c.note("division / remainder by a non-constant divisor is an opaque function with range facts (exact facts only through proved lemmas)")
	// remainders: sign of the dividend, magnitude below the divisor
	c.axiom("(forall ((a Int) (b Int)) (! (and (=> (and (>= a 0) (> b 0)) (and (<= 0 (nl_trem a b)) (< (nl_trem a b) b) (<= (nl_trem a b) a))) (=> (and (<= a 0) (> b 0)) (and (<= (nl_trem a b) 0) (< (- b) (nl_trem a b)))) (=> (and (>= a 0) (< b 0)) (and (<= 0 (nl_trem a b)) (< (nl_trem a b) (- b)))) (=> (and (<= a 0) (< b 0)) (and (<= (nl_trem a b) 0) (< b (nl_trem a b))))) :pattern ((nl_trem a b))))", "nl_trem")
	c.axiom("(forall ((a Int) (b Int)) (! (=> (and (>= a 0) (> b 0)) (and (<= 0 (nl_mod a b)) (< (nl_mod a b) b) (<= (nl_mod a b) a))) :pattern ((nl_mod a b))))", "nl_mod")
	// quotients: between 0 and the dividend for non-negative operands; magnitude never above the dividend's
	c.axiom("(forall ((a Int) (b Int)) (! (and (=> (and (>= a 0) (> b 0)) (and (<= 0 (nl_tdiv a b)) (<= (nl_tdiv a b) a))) (=> (and (>= a 0) (not (= b 0))) (and (<= (- a) (nl_tdiv a b)) (<= (nl_tdiv a b) a))) (=> (and (<= a 0) (not (= b 0))) (and (<= a (nl_tdiv a b)) (<= (nl_tdiv a b) (- a))))) :pattern ((nl_tdiv a b))))", "nl_tdiv")
	c.axiom("(forall ((a Int) (b Int)) (! (=> (and (>= a 0) (> b 0)) (and (<= 0 (nl_div a b)) (<= (nl_div a b) a))) :pattern ((nl_div a b))))", "nl_div")
}
