package main

// Integer / string / comparison operators in both encodings.

import (
	"fmt"
	"go/constant"
	"go/token"
	"go/types"
	"math/big"
	"strconv"
	"strings"
)

func pow2(n int) string {
	return new(big.Int).Lsh(big.NewInt(1), uint(n)).String()
}

// wrap reduces a mathematical integer term to the range of type t (mode int).
func (c *FuncCtx) wrap(raw string, t types.Type) string {
	bits, signed, ok := intInfo(t)
	if !ok {
		return raw
	}
	if signed {
		return fmt.Sprintf("(- (mod (+ %s %s) %s) %s)", raw, pow2(bits-1), pow2(bits), pow2(bits-1))
	}
	return fmt.Sprintf("(mod %s %s)", raw, pow2(bits))
}

func (c *FuncCtx) intRange(v string, t types.Type) string {
	bits, signed, ok := intInfo(t)
	if !ok || c.mode == ModeBV {
		return "true"
	}
	if signed {
		return fmt.Sprintf("(and (<= (- %s) %s) (< %s %s))", pow2(bits-1), v, v, pow2(bits-1))
	}
	return fmt.Sprintf("(and (<= 0 %s) (< %s %s))", v, v, pow2(bits))
}

// constant term of a Go constant for type t
func (c *FuncCtx) constTerm(val constant.Value, t types.Type) string {
	if val == nil {
		return c.so.zero(t)
	}
	switch {
	case isBool(t):
		if constant.BoolVal(val) {
			return "true"
		}
		return "false"
	case isString(t):
		return c.strLit(constant.StringVal(val))
	case isFloat(t):
		f, _ := constant.Float64Val(val)
		return c.fltLit(f)
	}
	if _, _, ok := intInfo(t); ok {
		if i, exact := constant.Int64Val(val); exact {
			return c.so.intLit(t, i)
		}
		if u, exact := constant.Uint64Val(val); exact {
			return c.so.uintLit(t, u)
		}
		// float constant converted to int type etc.
		return c.so.intLit(t, 0)
	}
	return c.so.zero(t)
}

func (c *FuncCtx) fltLit(f float64) string {
	if f == 0 {
		return "flt_zero"
	}
	name := "flt_" + quoteSymInner(strings.NewReplacer("-", "m", "+", "p", ".", "d").Replace(strconv.FormatFloat(f, 'g', -1, 64)))
	c.needDecl(name, fmt.Sprintf("(declare-const %s Flt)", name))
	return name
}

func (c *FuncCtx) strLit(s string) string {
	if s == "" {
		return "str_empty"
	}
	if n, ok := c.strLits[s]; ok {
		return n
	}
	if len(s) == 1 {
		// one-byte literals are the same terms as bytestr(b) in specifications
		b := fmt.Sprintf("%d", s[0])
		if c.mode == ModeBV {
			b = fmt.Sprintf("(_ bv%d 8)", s[0])
		}
		t := c.strOfByte(b)
		c.strLits[s] = t
		return t
	}
	hint := "lit_"
	for i := 0; i < len(s) && i < 16; i++ {
		ch := s[i]
		if ch >= 'a' && ch <= 'z' || ch >= 'A' && ch <= 'Z' || ch >= '0' && ch <= '9' {
			hint += string(ch)
		} else {
			hint += "_"
		}
	}
	name := c.declare(hint, "Str")
	c.strLits[s] = name
	var facts []string
	facts = append(facts, fmt.Sprintf("(= (slen %s) %s)", name, c.so.idxLit(int64(len(s)))))
	lim := len(s)
	if lim > 48 {
		lim = 48
	}
	for i := 0; i < lim; i++ {
		b := fmt.Sprintf("%d", s[i])
		if c.mode == ModeBV {
			b = fmt.Sprintf("(_ bv%d 8)", s[i])
		}
		facts = append(facts, fmt.Sprintf("(= (sat %s %s) %s)", name, c.so.idxLit(int64(i)), b))
	}
	c.axiom(and(facts...), name)
	if len(s) > 48 {
		for o, on := range c.strLits {
			if o != s && len(o) == len(s) && o[:48] == s[:48] {
				c.axiom(fmt.Sprintf("(distinct %s %s)", name, on), name, on)
			}
		}
	}
	return name
}

func (c *FuncCtx) uf(name, sig string) string {
	c.needDecl(name, fmt.Sprintf("(declare-fun %s %s)", name, sig))
	return name
}

func constInt(v Val) (int64, bool) {
	return 0, false
}

// parseIntLit recognises decimal literal terms produced by intLit (mode int).
func parseIntLit(s string) (int64, bool) {
	if strings.HasPrefix(s, "(- ") && strings.HasSuffix(s, ")") {
		n, err := strconv.ParseInt(s[3:len(s)-1], 10, 64)
		if err == nil {
			return -n, true
		}
		return 0, false
	}
	n, err := strconv.ParseInt(s, 10, 64)
	return n, err == nil
}

func isPow2Minus1(n int64) (int, bool) {
	if n <= 0 {
		return 0, false
	}
	k := 0
	m := n
	for m&1 == 1 {
		m >>= 1
		k++
	}
	return k, m == 0
}

// binop translates a Go binary operator. t is the result type; xt the operand type.
func (c *FuncCtx) binop(op token.Token, x, y Val, t types.Type) (string, error) {
	xt := x.T
	switch {
	case isString(xt):
		switch op {
		case token.EQL:
			return fmt.Sprintf("(= %s %s)", x.S, y.S), nil
		case token.NEQ:
			return fmt.Sprintf("(not (= %s %s))", x.S, y.S), nil
		case token.ADD:
			return c.sconcat(x.S, y.S), nil
		case token.LSS, token.LEQ, token.GTR, token.GEQ:
			c.uf("str_lt", "(Str Str) Bool")
			switch op {
			case token.LSS:
				return fmt.Sprintf("(str_lt %s %s)", x.S, y.S), nil
			case token.GTR:
				return fmt.Sprintf("(str_lt %s %s)", y.S, x.S), nil
			case token.LEQ:
				return fmt.Sprintf("(not (str_lt %s %s))", y.S, x.S), nil
			default:
				return fmt.Sprintf("(not (str_lt %s %s))", x.S, y.S), nil
			}
		}
	case isBool(xt):
		switch op {
		case token.EQL:
			return fmt.Sprintf("(= %s %s)", x.S, y.S), nil
		case token.NEQ:
			return fmt.Sprintf("(not (= %s %s))", x.S, y.S), nil
		case token.LAND, token.AND:
			return and(x.S, y.S), nil
		case token.LOR, token.OR:
			return or(x.S, y.S), nil
		}
	case isFloat(xt):
		return c.floatOp(op, x, y, t)
	}
	if _, _, ok := intInfo(xt); ok {
		if c.mode == ModeBV {
			return c.bvBinop(op, x, y, t)
		}
		return c.intBinop(op, x, y, t)
	}
	// pointers, interfaces, chans, funcs, structs, arrays: only == and !=
	switch op {
	case token.EQL:
		return fmt.Sprintf("(= %s %s)", c.termOf(x), c.termOf(y)), nil
	case token.NEQ:
		return fmt.Sprintf("(not (= %s %s))", c.termOf(x), c.termOf(y)), nil
	}
	return "", fmt.Errorf("unsupported binop %s on %s", op, xt)
}

func (c *FuncCtx) termOf(v Val) string {
	if v.P != nil {
		return c.ptrTerm(v)
	}
	return v.S
}

func (c *FuncCtx) floatOp(op token.Token, x, y Val, t types.Type) (string, error) {
	switch op {
	case token.EQL:
		return fmt.Sprintf("(flt_eq %s %s)", x.S, c.ufr("flt_eq", "(Flt Flt) Bool", y.S)), nil
	case token.NEQ:
		return fmt.Sprintf("(not (flt_eq %s %s))", x.S, c.ufr("flt_eq", "(Flt Flt) Bool", y.S)), nil
	case token.LSS:
		return fmt.Sprintf("(flt_lt %s %s)", x.S, c.ufr("flt_lt", "(Flt Flt) Bool", y.S)), nil
	case token.GTR:
		return fmt.Sprintf("(flt_lt %s %s)", c.ufr("flt_lt", "(Flt Flt) Bool", y.S), x.S), nil
	case token.LEQ:
		return fmt.Sprintf("(flt_le %s %s)", x.S, c.ufr("flt_le", "(Flt Flt) Bool", y.S)), nil
	case token.GEQ:
		return fmt.Sprintf("(flt_le %s %s)", c.ufr("flt_le", "(Flt Flt) Bool", y.S), x.S), nil
	case token.ADD, token.SUB, token.MUL, token.QUO:
		n := map[token.Token]string{token.ADD: "flt_add", token.SUB: "flt_sub", token.MUL: "flt_mul", token.QUO: "flt_div"}[op]
		c.uf(n, "(Flt Flt) Flt")
		return fmt.Sprintf("(%s %s %s)", n, x.S, y.S), nil
	}
	return "", fmt.Errorf("unsupported float op %s", op)
}

// ufr declares an uninterpreted function and returns arg unchanged (helper for inline use)
func (c *FuncCtx) ufr(name, sig, arg string) string {
	c.uf(name, sig)
	return arg
}

func (c *FuncCtx) intBinop(op token.Token, x, y Val, t types.Type) (string, error) {
	bits, signed, _ := intInfo(x.T)
	a, b := x.S, y.S
	switch op {
	case token.EQL:
		return fmt.Sprintf("(= %s %s)", a, b), nil
	case token.NEQ:
		return fmt.Sprintf("(not (= %s %s))", a, b), nil
	case token.LSS:
		return fmt.Sprintf("(< %s %s)", a, b), nil
	case token.LEQ:
		return fmt.Sprintf("(<= %s %s)", a, b), nil
	case token.GTR:
		return fmt.Sprintf("(> %s %s)", a, b), nil
	case token.GEQ:
		return fmt.Sprintf("(>= %s %s)", a, b), nil
	case token.ADD, token.SUB, token.MUL:
		o := map[token.Token]string{token.ADD: "+", token.SUB: "-", token.MUL: "*"}[op]
		raw := fmt.Sprintf("(%s %s %s)", o, a, b)
		if bits == 64 && (signed || op != token.SUB) {
			c.assume("int/int64/uint64 +,-,* treated as mathematical (no overflow assumed) in mode int; narrower types and uint64 subtraction wrap exactly")
			return raw, nil
		}
		return c.wrap(raw, x.T), nil
	case token.QUO:
		if _, lit := parseIntLit(b); !lit && !c.inLemma && c.opaqueNLDiv() {
			// division by a variable is nonlinear: outside lemma proofs it is an opaque function with its range facts
			// (nldiv.go); exact facts about it come from lemmas proved against the real definition
			c.nlDivDecls()
			if signed {
				return fmt.Sprintf("(nl_tdiv %s %s)", a, b), nil
			}
			return fmt.Sprintf("(nl_div %s %s)", a, b), nil
		}
		if signed {
			return fmt.Sprintf("(tdiv %s %s)", a, b), nil
		}
		return fmt.Sprintf("(div %s %s)", a, b), nil
	case token.REM:
		if _, lit := parseIntLit(b); !lit && !c.inLemma && c.opaqueNLDiv() {
			c.nlDivDecls()
			if signed {
				return fmt.Sprintf("(nl_trem %s %s)", a, b), nil
			}
			return fmt.Sprintf("(nl_mod %s %s)", a, b), nil
		}
		if signed {
			return fmt.Sprintf("(trem %s %s)", a, b), nil
		}
		return fmt.Sprintf("(mod %s %s)", a, b), nil
	case token.AND:
		if n, ok := parseIntLit(b); ok {
			if k, ok := isPow2Minus1(n); ok {
				return fmt.Sprintf("(mod %s %s)", a, pow2(k)), nil
			}
		}
		if n, ok := parseIntLit(a); ok {
			if k, ok := isPow2Minus1(n); ok {
				return fmt.Sprintf("(mod %s %s)", b, pow2(k)), nil
			}
		}
		c.bwAxioms()
		return fmt.Sprintf("(bw_and %s %s)", a, b), nil
	case token.OR:
		c.bwAxioms()
		return fmt.Sprintf("(bw_or %s %s)", a, b), nil
	case token.XOR:
		c.bwAxioms()
		return fmt.Sprintf("(bw_xor %s %s)", a, b), nil
	case token.AND_NOT:
		c.bwAxioms()
		return fmt.Sprintf("(bw_andnot %s %s)", a, b), nil
	case token.SHL:
		if n, ok := parseIntLit(b); ok && n >= 0 && n < 64 {
			return c.wrap(fmt.Sprintf("(* %s %s)", a, pow2(int(n))), x.T), nil
		}
		c.bwAxioms()
		return c.wrap(fmt.Sprintf("(* %s (pow2 %s))", a, b), x.T), nil
	case token.SHR:
		if n, ok := parseIntLit(b); ok && n >= 0 && n < 64 {
			return fmt.Sprintf("(div %s %s)", a, pow2(int(n))), nil
		}
		c.bwAxioms()
		return fmt.Sprintf("(div %s (pow2 %s))", a, b), nil
	}
	return "", fmt.Errorf("unsupported int binop %s", op)
}

func (c *FuncCtx) bwAxioms() {
	if c.needed["bw_and"] {
		return
	}
	c.needDecl("bw_and", "(declare-fun bw_and (Int Int) Int)")
	c.needDecl("bw_or", "(declare-fun bw_or (Int Int) Int)")
	c.needDecl("bw_xor", "(declare-fun bw_xor (Int Int) Int)")
	c.needDecl("bw_andnot", "(declare-fun bw_andnot (Int Int) Int)")
	c.needDecl("pow2", "(declare-fun pow2 (Int) Int)")
	c.axiom("(forall ((x Int) (y Int)) (! (=> (and (>= x 0) (>= y 0)) (and (<= 0 (bw_and x y)) (<= (bw_and x y) x) (<= (bw_and x y) y))) :pattern ((bw_and x y))))", "bw_and")
	c.axiom("(forall ((x Int) (y Int)) (! (=> (and (>= x 0) (>= y 0)) (and (>= (bw_or x y) x) (>= (bw_or x y) y) (<= (bw_or x y) (+ x y)))) :pattern ((bw_or x y))))", "bw_or")
	c.axiom("(forall ((x Int) (y Int)) (! (=> (and (>= x 0) (>= y 0)) (and (>= (bw_xor x y) 0) (<= (bw_xor x y) (+ x y)))) :pattern ((bw_xor x y))))", "bw_xor")
	c.axiom("(forall ((x Int) (y Int)) (! (=> (and (>= x 0) (>= y 0)) (and (<= 0 (bw_andnot x y)) (<= (bw_andnot x y) x))) :pattern ((bw_andnot x y))))", "bw_andnot")
	c.axiom("(forall ((n Int)) (! (=> (>= n 0) (>= (pow2 n) 1)) :pattern ((pow2 n))))", "pow2")
	var fs []string
	for i := 0; i <= 32; i++ {
		fs = append(fs, fmt.Sprintf("(= (pow2 %d) %s)", i, pow2(i)))
	}
	c.axiom(and(fs...), "pow2")
	c.axiom("(forall ((n Int) (m Int)) (! (=> (and (<= 0 n) (<= n m)) (<= (pow2 n) (pow2 m))) :pattern ((pow2 n) (pow2 m))))", "pow2")
}

func (c *FuncCtx) bvBinop(op token.Token, x, y Val, t types.Type) (string, error) {
	bits, signed, _ := intInfo(x.T)
	a, b := x.S, y.S
	if op == token.SHL || op == token.SHR {
		// bring shift count to the operand width
		yb, _, _ := intInfo(y.T)
		if yb == 0 {
			yb = 64
		}
		if yb < bits {
			b = fmt.Sprintf("((_ zero_extend %d) %s)", bits-yb, b)
		} else if yb > bits {
			// saturate: if count >= bits the result is 0 / sign; clamp to bits
			clamp := fmt.Sprintf("(ite (bvuge %s (_ bv%d %d)) (_ bv%d %d) %s)", b, bits, yb, bits, yb, b)
			b = fmt.Sprintf("((_ extract %d 0) %s)", bits-1, clamp)
		}
	}
	switch op {
	case token.EQL:
		return fmt.Sprintf("(= %s %s)", a, b), nil
	case token.NEQ:
		return fmt.Sprintf("(not (= %s %s))", a, b), nil
	case token.LSS, token.LEQ, token.GTR, token.GEQ:
		n := map[token.Token]string{token.LSS: "lt", token.LEQ: "le", token.GTR: "gt", token.GEQ: "ge"}[op]
		p := "bvu"
		if signed {
			p = "bvs"
		}
		return fmt.Sprintf("(%s%s %s %s)", p, n, a, b), nil
	case token.ADD:
		return fmt.Sprintf("(bvadd %s %s)", a, b), nil
	case token.SUB:
		return fmt.Sprintf("(bvsub %s %s)", a, b), nil
	case token.MUL:
		return fmt.Sprintf("(bvmul %s %s)", a, b), nil
	case token.QUO:
		if signed {
			return fmt.Sprintf("(bvsdiv %s %s)", a, b), nil
		}
		return fmt.Sprintf("(bvudiv %s %s)", a, b), nil
	case token.REM:
		if signed {
			return fmt.Sprintf("(bvsrem %s %s)", a, b), nil
		}
		return fmt.Sprintf("(bvurem %s %s)", a, b), nil
	case token.AND:
		return fmt.Sprintf("(bvand %s %s)", a, b), nil
	case token.OR:
		return fmt.Sprintf("(bvor %s %s)", a, b), nil
	case token.XOR:
		return fmt.Sprintf("(bvxor %s %s)", a, b), nil
	case token.AND_NOT:
		return fmt.Sprintf("(bvand %s (bvnot %s))", a, b), nil
	case token.SHL:
		return fmt.Sprintf("(bvshl %s %s)", a, b), nil
	case token.SHR:
		if signed {
			return fmt.Sprintf("(bvashr %s %s)", a, b), nil
		}
		return fmt.Sprintf("(bvlshr %s %s)", a, b), nil
	}
	return "", fmt.Errorf("unsupported bv binop %s", op)
}

// convertInt converts an integer term between Go integer types.
func (c *FuncCtx) convertInt(v string, from, to types.Type) string {
	fb, fs, _ := intInfo(from)
	tb, ts, _ := intInfo(to)
	if c.mode == ModeBV {
		switch {
		case tb == fb:
			return v
		case tb < fb:
			return fmt.Sprintf("((_ extract %d 0) %s)", tb-1, v)
		default:
			if fs {
				return fmt.Sprintf("((_ sign_extend %d) %s)", tb-fb, v)
			}
			return fmt.Sprintf("((_ zero_extend %d) %s)", tb-fb, v)
		}
	}
	// mode int: value preserved when the source range fits in the target range
	if fs == ts && tb >= fb {
		return v
	}
	if !fs && ts && tb > fb {
		return v
	}
	return c.wrap(v, to)
}

// string helpers --------------------------------------------------------------

func (c *FuncCtx) sconcat(a, b string) string {
	if a == "str_empty" {
		return b
	}
	if b == "str_empty" {
		return a
	}
	c.needDecl("sconcat", "(declare-fun sconcat (Str Str) Str)")
	if !c.needed["sconcat_ax"] {
		c.needed["sconcat_ax"] = true
		if c.mode == ModeInt {
			c.axiom("(forall ((a Str) (b Str)) (! (= (slen (sconcat a b)) (+ (slen a) (slen b))) :pattern ((sconcat a b))))", "sconcat")
			c.axiom("(forall ((a Str) (b Str) (i Int)) (! (= (sat (sconcat a b) i) (ite (< i (slen a)) (sat a i) (sat b (- i (slen a))))) :pattern ((sat (sconcat a b) i))))", "sconcat")
			c.axiom("(forall ((a Str) (b Str) (c Str)) (! (= (sconcat (sconcat a b) c) (sconcat a (sconcat b c))) :pattern ((sconcat (sconcat a b) c))))", "sconcat")
			c.axiom("(forall ((a Str)) (! (= (sconcat a str_empty) a) :pattern ((sconcat a str_empty))))", "sconcat")
			c.axiom("(forall ((a Str)) (! (= (sconcat str_empty a) a) :pattern ((sconcat str_empty a))))", "sconcat")
		} else {
			c.axiom("(forall ((a Str) (b Str)) (! (= (slen (sconcat a b)) (bvadd (slen a) (slen b))) :pattern ((sconcat a b))))", "sconcat")
		}
	}
	return fmt.Sprintf("(sconcat %s %s)", a, b)
}

func (c *FuncCtx) ssub(s, lo, hi string) string {
	c.needDecl("ssub", fmt.Sprintf("(declare-fun ssub (Str %s %s) Str)", c.so.idxSort(), c.so.idxSort()))
	if !c.needed["ssub_ax"] {
		c.needed["ssub_ax"] = true
		if c.mode == ModeInt {
			c.axiom("(forall ((s Str) (a Int) (b Int)) (! (=> (and (<= 0 a) (<= a b) (<= b (slen s))) (= (slen (ssub s a b)) (- b a))) :pattern ((ssub s a b))))", "ssub")
			c.axiom("(forall ((s Str) (a Int) (b Int) (i Int)) (! (=> (and (<= 0 a) (<= a b) (<= b (slen s)) (<= 0 i) (< i (- b a))) (= (sat (ssub s a b) i) (sat s (+ a i)))) :pattern ((sat (ssub s a b) i))))", "ssub")
			c.axiom("(forall ((s Str)) (! (= (ssub s 0 (slen s)) s) :pattern ((ssub s 0 (slen s)))))", "ssub")
		} else {
			c.axiom("(forall ((s Str) (a (_ BitVec 64)) (b (_ BitVec 64))) (! (=> (and (bvsle (_ bv0 64) a) (bvsle a b) (bvsle b (slen s))) (= (slen (ssub s a b)) (bvsub b a))) :pattern ((ssub s a b))))", "ssub")
			c.axiom("(forall ((s Str) (a (_ BitVec 64)) (b (_ BitVec 64)) (i (_ BitVec 64))) (! (=> (and (bvsle (_ bv0 64) a) (bvsle a b) (bvsle b (slen s)) (bvsle (_ bv0 64) i) (bvslt i (bvsub b a))) (= (sat (ssub s a b) i) (sat s (bvadd a i)))) :pattern ((sat (ssub s a b) i))))", "ssub")
		}
	}
	return fmt.Sprintf("(ssub %s %s %s)", s, lo, hi)
}

// idx helpers (operate on the `int` sort of the current mode)

func (c *FuncCtx) iAdd(a, b string) string {
	if c.mode == ModeBV {
		return fmt.Sprintf("(bvadd %s %s)", a, b)
	}
	if a == "0" {
		return b
	}
	if b == "0" {
		return a
	}
	return fmt.Sprintf("(+ %s %s)", a, b)
}
func (c *FuncCtx) iSub(a, b string) string {
	if c.mode == ModeBV {
		return fmt.Sprintf("(bvsub %s %s)", a, b)
	}
	if b == "0" {
		return a
	}
	return fmt.Sprintf("(- %s %s)", a, b)
}
func (c *FuncCtx) iLe(a, b string) string {
	if c.mode == ModeBV {
		return fmt.Sprintf("(bvsle %s %s)", a, b)
	}
	return fmt.Sprintf("(<= %s %s)", a, b)
}
func (c *FuncCtx) iLt(a, b string) string {
	if c.mode == ModeBV {
		return fmt.Sprintf("(bvslt %s %s)", a, b)
	}
	return fmt.Sprintf("(< %s %s)", a, b)
}
func (c *FuncCtx) iMul(a, b string) string {
	if c.mode == ModeBV {
		return fmt.Sprintf("(bvmul %s %s)", a, b)
	}
	return fmt.Sprintf("(* %s %s)", a, b)
}

// toIdx converts an integer Val of any Go integer type to the `int` sort.
func (c *FuncCtx) toIdx(v Val) string {
	if c.mode == ModeBV {
		return c.convertInt(v.S, v.T, types.Typ[types.Int])
	}
	return v.S
}
