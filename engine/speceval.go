package main

// Evaluation of specification expressions to SMT terms.

import (
	"fmt"
	"go/token"
	"go/types"
	"math/big"
	"strings"

	"golang.org/x/tools/go/ssa"
)

var tokLSS = token.LSS

type SpecEnv struct {
	c       *FuncCtx
	f       *Frame // may be nil (lemmas)
	st, old *State
	names   map[string]Val
	block   *ssa.BasicBlock
	pkg     *types.Package
	results []Val
	resNames []string
	qn      int
	atEnd   bool
	inOld   bool
	lets    []LetDef
}

type specErr struct{ msg string }

func (e *SpecEnv) fail(format string, a ...any) { panic(specErr{fmt.Sprintf(format, a...)}) }

func (e *SpecEnv) clone() *SpecEnv {
	n := *e
	n.names = map[string]Val{}
	for k, v := range e.names {
		n.names[k] = v
	}
	return &n
}

// evalBool evaluates a clause expression to a Bool term.
func (e *SpecEnv) evalBool(x SpecExpr) (t string, err error) {
	defer func() {
		if r := recover(); r != nil {
			if se, ok := r.(specErr); ok {
				err = fmt.Errorf("%s", se.msg)
				return
			}
			if ue, ok := r.(unsupportedErr); ok {
				err = ue
				return
			}
			panic(r)
		}
	}()
	v := e.eval(x)
	if !isBool(v.T) {
		return "", fmt.Errorf("clause %s is not boolean (type %v)", x, v.T)
	}
	return v.S, nil
}

var untypedInt = types.Typ[types.UntypedInt]

func isUntyped(t types.Type) bool {
	b, ok := t.(*types.Basic)
	return ok && b.Info()&types.IsUntyped != 0
}

func (e *SpecEnv) lookupType(name string) types.Type {
	ptr := 0
	for strings.HasPrefix(name, "*") {
		ptr++
		name = name[1:]
	}
	var t types.Type
	if strings.HasPrefix(name, "[]") {
		el := e.lookupType(name[2:])
		t = types.NewSlice(el)
	} else if obj := types.Universe.Lookup(name); obj != nil {
		if tn, ok := obj.(*types.TypeName); ok {
			t = tn.Type()
		}
	}
	if t == nil && e.pkg != nil {
		if i := strings.Index(name, "."); i >= 0 {
			for _, imp := range e.pkg.Imports() {
				if imp.Name() == name[:i] {
					if obj := imp.Scope().Lookup(name[i+1:]); obj != nil {
						t = obj.Type()
					}
				}
			}
			if t == nil && e.c.eng != nil {
				t = e.c.eng.lookupQualifiedType(name[:i], name[i+1:])
			}
		} else if obj := e.pkg.Scope().Lookup(name); obj != nil {
			if _, ok := obj.(*types.TypeName); ok {
				t = obj.Type()
			}
		}
	}
	if t == nil {
		e.fail("unknown type %q", name)
	}
	for ; ptr > 0; ptr-- {
		t = types.NewPointer(t)
	}
	return t
}

func (e *SpecEnv) isTypeName(name string) bool {
	defer func() { recover() }()
	if _, shadow := e.names[name]; shadow {
		return false
	}
	ok := false
	func() {
		defer func() {
			if r := recover(); r != nil {
				ok = false
			}
		}()
		e.lookupType(name)
		ok = true
	}()
	return ok
}

func (e *SpecEnv) constVal(n *big.Int, t types.Type) Val {
	if isUntyped(t) || e.c.mode == ModeInt {
		s := n.String()
		if n.Sign() < 0 {
			s = "(- " + new(big.Int).Neg(n).String() + ")"
		}
		return Val{T: t, S: s, Clo: nil}
	}
	bits, _, _ := intInfo(t)
	m := new(big.Int).Set(n)
	if m.Sign() < 0 {
		m.Add(m, new(big.Int).Lsh(big.NewInt(1), uint(bits)))
	}
	return Val{T: t, S: fmt.Sprintf("(_ bv%s %d)", m.String(), bits)}
}

// coerce converts an untyped constant value to the type of the other operand.
func (e *SpecEnv) coerce(v Val, t types.Type) Val {
	if !isUntyped(v.T) {
		return v
	}
	if isUntyped(t) {
		return v
	}
	if _, _, ok := intInfo(t); ok {
		n, ok2 := parseBig(v.S)
		if !ok2 {
			e.fail("cannot use non-constant untyped value %s as %s", v.S, t)
		}
		return e.constVal(n, t)
	}
	if isFloat(t) {
		e.fail("float constants unsupported in specs")
	}
	return Val{T: t, S: v.S}
}

func parseBig(s string) (*big.Int, bool) {
	neg := false
	if strings.HasPrefix(s, "(- ") && strings.HasSuffix(s, ")") {
		neg = true
		s = s[3 : len(s)-1]
	}
	n, ok := new(big.Int).SetString(s, 10)
	if !ok {
		return nil, false
	}
	if neg {
		n.Neg(n)
	}
	return n, true
}

func (e *SpecEnv) eval(x SpecExpr) Val {
	c := e.c
	switch x := x.(type) {
	case *SInt:
		n, _ := new(big.Int).SetString(x.V, 10)
		return Val{T: untypedInt, S: n.String()}
	case *SBool:
		if x.V {
			return Val{T: types.Typ[types.Bool], S: "true"}
		}
		return Val{T: types.Typ[types.Bool], S: "false"}
	case *SStr:
		return Val{T: types.Typ[types.String], S: c.strLit(x.V)}
	case *SNil:
		return Val{T: types.Typ[types.UntypedNil], S: "nil"}
	case *SIdent:
		return e.evalIdent(x.Name)
	case *SUnary:
		if x.Op == "&" {
			// address of a field of the object a pointer designates: &p.f
			if sel, isSel := x.X.(*SSelector); isSel {
				base := e.eval(sel.X)
				if pt, ok := base.T.Underlying().(*types.Pointer); ok {
					if st, ok := pt.Elem().Underlying().(*types.Struct); ok {
						for fi := 0; fi < st.NumFields(); fi++ {
							if st.Field(fi).Name() == sel.Sel {
								bp := c.ptrOf(base)
								ft := st.Field(fi).Type()
								np := &Ptr{Root: bp.Root, Obj: bp.Obj, ArrElem: bp.ArrElem, Path: append(append([]PathEl{}, bp.Path...), PathEl{Field: fi, T: ft})}
								return Val{T: types.NewPointer(ft), P: np}
							}
						}
					}
				}
				e.fail("&%s: not a field of a pointed-to struct", sel.Sel)
			}
			// address of an addressable local variable (one whose address the code takes)
			id, isId := x.X.(*SIdent)
			if !isId || e.f == nil {
				e.fail("& is only supported on local variables")
			}
			defs := e.f.defsOf(id.Name)
			for i := len(defs) - 1; i >= 0; i-- {
				if defs[i].addr {
					if v, ok := e.f.vals[defs[i].val]; ok {
						return v
					}
				}
			}
			e.fail("&%s: not an addressable local at this point", id.Name)
		}
		v := e.eval(x.X)
		switch x.Op {
		case "!":
			return Val{T: types.Typ[types.Bool], S: not(v.S)}
		case "-":
			if isUntyped(v.T) {
				n, _ := parseBig(v.S)
				return e.constVal(new(big.Int).Neg(n), v.T)
			}
			if c.mode == ModeBV {
				return Val{T: v.T, S: fmt.Sprintf("(bvneg %s)", v.S)}
			}
			return Val{T: v.T, S: fmt.Sprintf("(- %s)", v.S)}
		case "^":
			if c.mode == ModeBV {
				return Val{T: v.T, S: fmt.Sprintf("(bvnot %s)", v.S)}
			}
		case "*":
			pt, ok := v.T.Underlying().(*types.Pointer)
			if !ok {
				e.fail("* applied to a non-pointer %v", v.T)
			}
			if e.st == nil {
				e.fail("heap access without state")
			}
			return Val{T: pt.Elem(), S: c.load(e.st, c.ptrOf(v), pt.Elem())}
		}
		e.fail("unsupported unary %s", x.Op)
	case *SBinary:
		return e.evalBinary(x)
	case *SQuant:
		return e.evalQuant(x)
	case *SSelector:
		return e.evalSelector(x)
	case *SIndex:
		return e.evalIndex(x)
	case *SSlice:
		return e.evalSliceExpr(x)
	case *SCall:
		return e.evalCall(x)
	}
	e.fail("unsupported spec expression %T", x)
	return Val{}
}

func (e *SpecEnv) evalIdent(name string) Val {
	if v, ok := e.names[name]; ok {
		return v
	}
	for _, ld := range e.lets {
		if ld.Name == name {
			return e.eval(ld.Expr)
		}
	}
	if name == "result" && len(e.results) > 0 {
		return e.results[0]
	}
	if name == "result" && e.f != nil {
		// outside a postcondition (loop invariants, call-site assertions) `result` can only be a local variable of that name
		if v, ok := e.f.lookupLocal(name, e.block, e.st); ok {
			return v
		}
		e.fail("`result` used outside a postcondition")
	}
	if strings.HasPrefix(name, "result") {
		var i int
		if _, err := fmt.Sscanf(name, "result%d", &i); err == nil && i < len(e.results) {
			return e.results[i]
		}
	}
	for i, n := range e.resNames {
		if n == name && i < len(e.results) {
			return e.results[i]
		}
	}
	if e.f != nil && e.inOld {
		// old(x): the value of parameter x at entry
		if v, ok := e.f.lookupLocal(name, nil, e.st); ok {
			return v
		}
	}
	if e.f != nil {
		if e.atEnd && e.block != nil {
			if v, ok := e.f.lookupAtEnd(name, e.block, e.st); ok {
				return v
			}
		} else if v, ok := e.f.lookupLocal(name, e.block, e.st); ok {
			return v
		}
	}
	// package-level constants and variables
	if e.pkg != nil {
		if obj := e.pkg.Scope().Lookup(name); obj != nil {
			switch o := obj.(type) {
			case *types.Const:
				return Val{T: o.Type(), S: e.c.constTerm(o.Val(), constType(o.Type()))}
			case *types.Var:
				if e.c.eng != nil {
					if g := e.c.eng.globalFor(o); g != nil {
						if name, ok := e.c.globalErrConst(g, o.Type()); ok {
							return Val{T: o.Type(), S: name} // fixed value: the same in every state
						}
						fr := e.f
						if fr == nil {
							fr = e.c.newFrame(nil, nil)
						}
						gv := fr.val(g)
						st := e.st
						if st == nil {
							e.fail("global %s used without a state", name)
						}
						return Val{T: o.Type(), S: e.c.load(st, gv.P, o.Type())}
					}
				}
			}
		}
	}
	e.fail("unknown identifier %q", name)
	return Val{}
}

func constType(t types.Type) types.Type {
	if b, ok := t.(*types.Basic); ok {
		switch b.Kind() {
		case types.UntypedInt, types.UntypedRune:
			return untypedInt
		case types.UntypedString:
			return types.Typ[types.String]
		case types.UntypedBool:
			return types.Typ[types.Bool]
		}
	}
	return t
}

func (e *SpecEnv) evalBinary(x *SBinary) Val {
	c := e.c
	boolT := types.Typ[types.Bool]
	switch x.Op {
	case "==>":
		a, b := e.eval(x.X), e.eval(x.Y)
		return Val{T: boolT, S: implies(a.S, b.S)}
	case "<==>":
		a, b := e.eval(x.X), e.eval(x.Y)
		if strings.Contains(a.S, "(forall ") || strings.Contains(a.S, "(exists ") || strings.Contains(b.S, "(forall ") || strings.Contains(b.S, "(exists ") {
			// a quantifier under `=` sits in both polarities at once: the solvers handle two implications far better
			return Val{T: boolT, S: fmt.Sprintf("(and (=> %s %s) (=> %s %s))", a.S, b.S, b.S, a.S)}
		}
		return Val{T: boolT, S: fmt.Sprintf("(= %s %s)", a.S, b.S)}
	case "&&":
		a, b := e.eval(x.X), e.eval(x.Y)
		return Val{T: boolT, S: and(a.S, b.S)}
	case "||":
		a, b := e.eval(x.X), e.eval(x.Y)
		return Val{T: boolT, S: or(a.S, b.S)}
	}
	a, b := e.eval(x.X), e.eval(x.Y)
	// nil comparisons
	if isNilVal(a) || isNilVal(b) {
		other := a
		if isNilVal(a) {
			other = b
		}
		var t string
		switch other.T.Underlying().(type) {
		case *types.Slice:
			t = fmt.Sprintf("(= (s_ref %s) 0)", other.S)
		case *types.Interface:
			t = fmt.Sprintf("(= %s iface_nil)", other.S)
		default:
			t = fmt.Sprintf("(= %s 0)", c.termOf(other))
		}
		if x.Op == "!=" {
			t = not(t)
		} else if x.Op != "==" {
			e.fail("bad operator %s with nil", x.Op)
		}
		return Val{T: boolT, S: t}
	}
	if isUntyped(a.T) && !isUntyped(b.T) {
		a = e.coerce(a, b.T)
	} else if isUntyped(b.T) && !isUntyped(a.T) {
		if x.Op == "<<" || x.Op == ">>" {
			if c.mode == ModeBV {
				// shift count of the operand's own width (the operator translation expects equal widths)
				b = e.coerce(b, a.T)
			} else {
				b = e.coerce(b, types.Typ[types.Uint])
			}
		} else {
			b = e.coerce(b, a.T)
		}
	} else if isUntyped(a.T) && isUntyped(b.T) {
		// constant folding through Int terms (mode independent): evaluate as big ints when possible
		an, ok1 := parseBig(a.S)
		bn, ok2 := parseBig(b.S)
		if ok1 && ok2 {
			r := new(big.Int)
			switch x.Op {
			case "+":
				return e.constVal(r.Add(an, bn), untypedInt)
			case "-":
				return e.constVal(r.Sub(an, bn), untypedInt)
			case "*":
				return e.constVal(r.Mul(an, bn), untypedInt)
			case "<<":
				return e.constVal(r.Lsh(an, uint(bn.Int64())), untypedInt)
			case "/":
				return e.constVal(r.Quo(an, bn), untypedInt)
			case "==":
				return Val{T: boolT, S: fmt.Sprint(an.Cmp(bn) == 0)}
			case "<":
				return Val{T: boolT, S: fmt.Sprint(an.Cmp(bn) < 0)}
			case "<=":
				return Val{T: boolT, S: fmt.Sprint(an.Cmp(bn) <= 0)}
			}
		}
		a.T = types.Typ[types.Int]
		b.T = types.Typ[types.Int]
		if c.mode == ModeBV {
			a = e.coerce(Val{T: untypedInt, S: a.S}, types.Typ[types.Int])
			b = e.coerce(Val{T: untypedInt, S: b.S}, types.Typ[types.Int])
		}
	}
	op := map[string]token.Token{"==": token.EQL, "!=": token.NEQ, "<": token.LSS, "<=": token.LEQ, ">": token.GTR, ">=": token.GEQ,
		"+": token.ADD, "-": token.SUB, "*": token.MUL, "/": token.QUO, "%": token.REM, "&": token.AND, "|": token.OR, "^": token.XOR,
		"<<": token.SHL, ">>": token.SHR, "&^": token.AND_NOT}[x.Op]
	rt := a.T
	switch x.Op {
	case "==", "!=", "<", "<=", ">", ">=":
		rt = boolT
	}
	// spec arithmetic in mode int is mathematical: no wrapping for + - *
	if c.mode == ModeInt {
		if _, _, ok := intInfo(a.T); ok {
			switch x.Op {
			case "+", "-", "*":
				return Val{T: a.T, S: fmt.Sprintf("(%s %s %s)", x.Op, a.S, b.S)}
			}
		}
	}
	if (x.Op == "==" || x.Op == "!=") && a.T != nil && b.T != nil {
		// interface value against a pointer (err == Nil): the pointer is converted to the interface, as Go does
		_, ai := a.T.Underlying().(*types.Interface)
		_, bi := b.T.Underlying().(*types.Interface)
		if ai && !bi && isPointerLike(b.T) && !isNilVal(b) {
			b = Val{T: a.T, S: fmt.Sprintf("(mk_iface %d %s)", c.typeID(b.T), c.termOf(b))}
		} else if bi && !ai && isPointerLike(a.T) && !isNilVal(a) {
			a = Val{T: b.T, S: fmt.Sprintf("(mk_iface %d %s)", c.typeID(a.T), c.termOf(a))}
		}
	}
	if (x.Op == "==" || x.Op == "!=") && a.T != nil && isFloat(a.T) {
		// in specifications == on floats is identity of the value (bit for bit), not IEEE comparison
		t := fmt.Sprintf("(= %s %s)", a.S, b.S)
		if x.Op == "!=" {
			t = not(t)
		}
		return Val{T: boolT, S: t}
	}
	if (x.Op == "==" || x.Op == "!=") && a.T != nil {
		if _, ok := a.T.Underlying().(*types.Slice); ok {
			t := fmt.Sprintf("(= %s %s)", a.S, b.S)
			if x.Op == "!=" {
				t = not(t)
			}
			return Val{T: boolT, S: t}
		}
	}
	t, err := c.binop(op, a, b, rt)
	if err != nil {
		e.fail("%v in %s", err, x)
	}
	return Val{T: rt, S: t}
}

func isNilVal(v Val) bool {
	b, ok := v.T.(*types.Basic)
	return ok && b.Kind() == types.UntypedNil
}

func (e *SpecEnv) evalQuant(x *SQuant) Val {
	c := e.c
	ne := e.clone()
	var binders []string
	var guards []string
	for _, v := range x.Vars {
		t := e.lookupType(v.Type)
		e.qn++
		c.qcount++
		name := fmt.Sprintf("%s!q%d", v.Name, c.qcount)
		binders = append(binders, fmt.Sprintf("(%s %s)", name, c.so.sortOf(t)))
		val := Val{T: t, S: name}
		ne.names[v.Name] = val
		if g := c.typeInvD(val, 1); g != "true" {
			guards = append(guards, g)
		}
	}
	c.qdepth++
	body := func() Val {
		defer func() { c.qdepth-- }()
		return ne.eval(x.Body)
	}()
	if !isBool(body.T) {
		e.fail("quantifier body is not boolean")
	}
	var pats string
	for _, p := range x.Pats {
		var ts []string
		for _, pe := range p {
			ts = append(ts, ne.eval(pe).S)
		}
		pats += " :pattern (" + strings.Join(ts, " ") + ")"
	}
	b := body.S
	if x.Forall {
		b = implies(and(guards...), b)
	} else {
		b = and(append(guards, b)...)
	}
	if pats != "" {
		b = "(! " + b + pats + ")"
	}
	q := "exists"
	if x.Forall {
		q = "forall"
	}
	qt := fmt.Sprintf("(%s (%s) %s)", q, strings.Join(binders, " "), b)
	if !x.Forall && len(x.Vars) == 1 && pats == "" && c.qdepth == 0 {
		// witnesses: an existential over an index is implied by each of its instances at an index the code itself
		// uses. The disjunction is logically equivalent to the existential alone; it only spares the solver the search
		// (E-matching misses `off + (i + 1)` once the sum has been flattened).
		bound := strings.Fields(strings.Trim(binders[0], "()"))[0]
		if strings.HasSuffix(binders[0], " "+c.so.idxSort()+")") {
			ds := []string{qt}
			for _, w := range c.idxTerms {
				ds = append(ds, replaceSymbol(b, bound, w))
			}
			if len(ds) > 1 {
				qt = "(or " + strings.Join(ds, " ") + ")"
			}
		}
	}
	return Val{T: types.Typ[types.Bool], S: qt}
}

// replaceSymbol substitutes the SMT symbol `sym` (whole token) by `with` in term t.
func replaceSymbol(t, sym, with string) string {
	var b strings.Builder
	for i := 0; i < len(t); {
		j := strings.Index(t[i:], sym)
		if j < 0 {
			b.WriteString(t[i:])
			break
		}
		j += i
		end := j + len(sym)
		okL := j == 0 || strings.ContainsRune(" ()", rune(t[j-1]))
		okR := end == len(t) || strings.ContainsRune(" ()", rune(t[end]))
		b.WriteString(t[i:j])
		if okL && okR {
			b.WriteString(with)
		} else {
			b.WriteString(sym)
		}
		i = end
	}
	return b.String()
}

// noteIdxTerm records an index the code uses (candidate witnesses for existentials, at most a dozen distinct ones).
func (c *FuncCtx) noteIdxTerm(t string) {
	if len(c.idxTerms) >= 12 {
		return
	}
	for _, x := range c.idxTerms {
		if x == t {
			return
		}
	}
	c.idxTerms = append(c.idxTerms, t)
}

func (e *SpecEnv) derefIfPtrToStruct(v Val) (Val, *types.Struct, bool) {
	if p, ok := v.T.Underlying().(*types.Pointer); ok {
		if st, ok := p.Elem().Underlying().(*types.Struct); ok {
			return v, st, true
		}
	}
	return v, nil, false
}

func (e *SpecEnv) evalSelector(x *SSelector) Val {
	c := e.c
	// package-qualified constant?
	if id, ok := x.X.(*SIdent); ok && e.pkg != nil {
		if _, shadow := e.names[id.Name]; !shadow {
			for _, imp := range e.pkg.Imports() {
				if imp.Name() == id.Name {
					if obj, ok := imp.Scope().Lookup(x.Sel).(*types.Const); ok {
						return Val{T: obj.Type(), S: c.constTerm(obj.Val(), constType(obj.Type()))}
					}
					if o, ok := imp.Scope().Lookup(x.Sel).(*types.Var); ok && c.eng != nil {
						// a package-level variable of an imported package
						if g := c.eng.globalFor(o); g != nil {
							if name, ok := c.globalErrConst(g, o.Type()); ok {
								return Val{T: o.Type(), S: name}
							}
							fr := e.f
							if fr == nil {
								fr = c.newFrame(nil, nil)
							}
							if e.st == nil {
								e.fail("global %s.%s used without a state", id.Name, x.Sel)
							}
							return Val{T: o.Type(), S: c.load(e.st, fr.val(g).P, o.Type())}
						}
					}
				}
			}
		}
	}
	base := e.eval(x.X)
	obj, index, indirect := types.LookupFieldOrMethod(base.T, true, e.pkg, x.Sel)
	_ = indirect
	fld, ok := obj.(*types.Var)
	if !ok || fld == nil {
		// an unexported field of a type from another package (specifications may name it; Go code could not)
		t := base.T.Underlying()
		if pt, isPtr := t.(*types.Pointer); isPtr {
			t = pt.Elem().Underlying()
		}
		if st, isStruct := t.(*types.Struct); isStruct {
			for i := 0; i < st.NumFields(); i++ {
				if st.Field(i).Name() == x.Sel {
					return e.selectField(base, i)
				}
			}
		}
		e.fail("no field %s in %v", x.Sel, base.T)
	}
	cur := base
	for _, fi := range index {
		cur = e.selectField(cur, fi)
	}
	return cur
}

func (e *SpecEnv) selectField(base Val, fi int) Val {
	c := e.c
	if pt, ok := base.T.Underlying().(*types.Pointer); ok {
		st, ok := pt.Elem().Underlying().(*types.Struct)
		if !ok {
			e.fail("field selection through pointer to non-struct %v", base.T)
		}
		if e.st == nil {
			e.fail("heap access without state")
		}
		p := c.ptrOf(base)
		np := &Ptr{Root: p.Root, Obj: p.Obj, ArrElem: p.ArrElem, Path: append(append([]PathEl{}, p.Path...), PathEl{Field: fi, T: st.Field(fi).Type()})}
		ft := st.Field(fi).Type()
		return Val{T: ft, S: c.load(e.st, np, ft)}
	}
	st, ok := base.T.Underlying().(*types.Struct)
	if !ok {
		e.fail("field selection on non-struct %v", base.T)
	}
	sn := c.so.structSort(base.T, st)
	return Val{T: st.Field(fi).Type(), S: fmt.Sprintf("(%s %s)", c.so.fieldSel(sn, st, fi), base.S)}
}

func (e *SpecEnv) idx(v Val) string {
	if isUntyped(v.T) {
		v = e.coerce(v, types.Typ[types.Int])
	}
	return e.c.toIdx(v)
}

func (e *SpecEnv) evalIndex(x *SIndex) Val {
	c := e.c
	base := e.eval(x.X)
	iv := e.eval(x.I)
	switch t := base.T.Underlying().(type) {
	case *types.Basic:
		if isString(base.T) {
			return Val{T: types.Typ[types.Byte], S: fmt.Sprintf("(sat %s %s)", base.S, e.idx(iv))}
		}
	case *types.Slice:
		if base.Arr != "" {
			return Val{T: t.Elem(), S: fmt.Sprintf("(select %s %s)", base.Arr, c.iAdd(fmt.Sprintf("(s_off %s)", base.S), e.idx(iv)))}
		}
		h := e.st.get(c.so.heapArr(t.Elem()))
		return Val{T: t.Elem(), S: fmt.Sprintf("(select (select %s (s_ref %s)) %s)", h, base.S, c.iAdd(fmt.Sprintf("(s_off %s)", base.S), e.idx(iv)))}
	case *types.Array:
		return Val{T: t.Elem(), S: fmt.Sprintf("(select %s %s)", base.S, e.idx(iv))}
	case *types.Pointer:
		if at, ok := t.Elem().Underlying().(*types.Array); ok {
			p := c.ptrOf(base)
			np := &Ptr{Root: p.Root, Obj: p.Obj, ArrElem: p.ArrElem, Path: append(append([]PathEl{}, p.Path...), PathEl{Field: -1, Index: e.idx(iv), T: at.Elem()})}
			return Val{T: at.Elem(), S: c.load(e.st, np, at.Elem())}
		}
	case *types.Map:
		kd := c.so.heapMapVal(t.Key(), t.Elem())
		k := e.coerce(iv, t.Key())
		// as in Go: a missing key (or a nil map) yields the zero value
		has := fmt.Sprintf("(and (not (= %s 0)) (select (select %s %s) %s))", base.S, e.st.get(c.so.heapMapDom(t.Key(), t.Elem())), base.S, c.termOf(k))
		return Val{T: t.Elem(), S: fmt.Sprintf("(ite %s (select (select %s %s) %s) %s)", has, e.st.get(kd), base.S, c.termOf(k), c.so.zero(t.Elem()))}
	}
	e.fail("cannot index %v", base.T)
	return Val{}
}

func (e *SpecEnv) evalSliceExpr(x *SSlice) Val {
	c := e.c
	base := e.eval(x.X)
	lo := c.so.idxLit(0)
	if x.Lo != nil {
		lo = e.idx(e.eval(x.Lo))
	}
	switch base.T.Underlying().(type) {
	case *types.Basic:
		hi := fmt.Sprintf("(slen %s)", base.S)
		if x.Hi != nil {
			hi = e.idx(e.eval(x.Hi))
		}
		return Val{T: base.T, S: c.ssub(base.S, lo, hi)}
	case *types.Slice:
		hi := fmt.Sprintf("(s_len %s)", base.S)
		if x.Hi != nil {
			hi = e.idx(e.eval(x.Hi))
		}
		return Val{T: base.T, S: fmt.Sprintf("(mk_slice (s_ref %s) %s %s %s)", base.S, c.iAdd(fmt.Sprintf("(s_off %s)", base.S), lo), c.iSub(hi, lo),
			c.iSub(fmt.Sprintf("(s_cap %s)", base.S), lo))}
	}
	e.fail("cannot slice %v", base.T)
	return Val{}
}

func (e *SpecEnv) evalCall(x *SCall) Val {
	c := e.c
	boolT := types.Typ[types.Bool]
	if id, ok := x.Fun.(*SIdent); ok {
		switch id.Name {
		case "old":
			ne := e.clone()
			if e.old == nil {
				e.fail("old() used where no entry state exists")
			}
			ne.st = e.old
			ne.oldMode()
			return ne.eval(x.Args[0])
		case "atentry":
			// atentry(E), in a loop invariant: the value E had when the loop was entered (before its first iteration)
			if e.f == nil || e.f.curLoop == nil || e.f.loopEntry[e.f.curLoop] == nil {
				e.fail("atentry() is only available in loop invariants")
			}
			h := e.f.curLoop
			le := e.f.loopEntry[h]
			ne := e.clone()
			ne.st, ne.block, ne.atEnd = le.st, h, false
			saved, had := e.f.hdrPhis[h]
			e.f.hdrPhis[h] = le.phis
			v := ne.eval(x.Args[0])
			if had {
				e.f.hdrPhis[h] = saved
			} else {
				delete(e.f.hdrPhis, h)
			}
			return v
		case "len", "cap":
			a := e.eval(x.Args[0])
			switch u := a.T.Underlying().(type) {
			case *types.Basic:
				return Val{T: types.Typ[types.Int], S: fmt.Sprintf("(slen %s)", a.S)}
			case *types.Slice:
				return Val{T: types.Typ[types.Int], S: fmt.Sprintf("(s_%s %s)", id.Name, a.S)}
			case *types.Array:
				return Val{T: types.Typ[types.Int], S: c.so.idxLit(u.Len())}
			case *types.Map:
				return Val{T: types.Typ[types.Int], S: fmt.Sprintf("(ite (= %s 0) 0 (select %s %s))", a.S, e.st.get(c.so.heapMapLen(u.Key(), u.Elem())), a.S)}
			}
			e.fail("len of %v", a.T)
		case "ite":
			cnd, a, b := e.eval(x.Args[0]), e.eval(x.Args[1]), e.eval(x.Args[2])
			if isUntyped(a.T) {
				a = e.coerce(a, b.T)
			}
			if isUntyped(b.T) {
				b = e.coerce(b, a.T)
			}
			if isUntyped(a.T) && isUntyped(b.T) {
				// two constants: the conditional value is an ordinary int
				a = e.coerce(a, types.Typ[types.Int])
				b = e.coerce(b, types.Typ[types.Int])
			}
			return Val{T: a.T, S: fmt.Sprintf("(ite %s %s %s)", cnd.S, c.termOf(a), c.termOf(b))}
		case "min", "max":
			a, b := e.eval(x.Args[0]), e.eval(x.Args[1])
			if isUntyped(a.T) {
				a = e.coerce(a, b.T)
			}
			if isUntyped(b.T) {
				b = e.coerce(b, a.T)
			}
			cmp, err := c.binop(token.LSS, a, b, boolT)
			if err != nil {
				e.fail("%v", err)
			}
			if id.Name == "min" {
				return Val{T: a.T, S: fmt.Sprintf("(ite %s %s %s)", cmp, a.S, b.S)}
			}
			return Val{T: a.T, S: fmt.Sprintf("(ite %s %s %s)", cmp, b.S, a.S)}
		case "has": // has(m, k): map membership
			m, k := e.eval(x.Args[0]), e.eval(x.Args[1])
			mt, ok := m.T.Underlying().(*types.Map)
			if !ok {
				e.fail("has() on non-map")
			}
			k = e.coerce(k, mt.Key())
			return Val{T: boolT, S: fmt.Sprintf("(and (not (= %s 0)) (select (select %s %s) %s))", m.S, e.st.get(c.so.heapMapDom(mt.Key(), mt.Elem())), m.S, c.termOf(k))}
		case "ptrof": // ptrof(ifaceValue, *T): the pointer an interface value holds (meaningful when typeis(ifaceValue, *T))
			v := e.eval(x.Args[0])
			t := e.lookupType(x.Args[1].String())
			return Val{T: t, S: fmt.Sprintf("(i_val %s)", v.S)}
		case "visited": // visited(k): key k has already been yielded by the function's map-range loop
			rng := c.lastMapRange
			if rng == nil || e.f == nil || e.st == nil {
				e.fail("visited() needs a map range loop in the function")
			}
			mt := rng.X.Type().Underlying().(*types.Map)
			k := e.coerce(e.eval(x.Args[0]), mt.Key())
			return Val{T: boolT, S: fmt.Sprintf("(select %s %s)", e.st.get(e.f.visitedKey(rng, mt)), c.termOf(k))}
		case "asiface": // the interface value holding the pointer x (as an implicit Go conversion would build it)
			v := e.eval(x.Args[0])
			if !isPointerLike(v.T) {
				e.fail("asiface needs a pointer")
			}
			return Val{T: types.NewInterfaceType(nil, nil), S: fmt.Sprintf("(mk_iface %d %s)", c.typeID(v.T), c.termOf(v))}
		case "bytestr": // the one-byte string consisting of byte b
			b := e.coerce(e.eval(x.Args[0]), types.Typ[types.Byte])
			if _, _, ok := intInfo(b.T); !ok {
				e.fail("bytestr needs a byte")
			}
			bt := c.convertInt(b.S, b.T, types.Typ[types.Byte])
			if c.mode == ModeInt {
				bt = fmt.Sprintf("(mod %s 256)", b.S)
			}
			return Val{T: types.Typ[types.String], S: c.strOfByte(bt)}
		case "first", "second", "third", "fourth":
			v := e.eval(x.Args[0])
			i := map[string]int{"first": 0, "second": 1, "third": 2, "fourth": 3}[id.Name]
			if v.Tup == nil || i >= len(v.Tup) {
				e.fail("%s() applied to a value that is not a tuple of at least %d components", id.Name, i+1)
			}
			return v.Tup[i]
		case "be64", "be32", "le64", "le32":
			// the standard library decoders, as the same pure functions the code calls
			full := map[string]string{"be64": "(encoding/binary.bigEndian).Uint64", "be32": "(encoding/binary.bigEndian).Uint32",
				"le64": "(encoding/binary.littleEndian).Uint64", "le32": "(encoding/binary.littleEndian).Uint32"}[id.Name]
			var fn *ssa.Function
			for f := range ssautilAllFunctions(c.eng.prog) {
				if f != nil && f.String() == full {
					fn = f
					break
				}
			}
			if fn == nil {
				e.fail("%s: %s is not part of the loaded program", id.Name, full)
			}
			arg := e.eval(x.Args[0])
			recv := Val{T: fn.Params[0].Type(), S: c.so.zero(fn.Params[0].Type())}
			return c.pureApp(fn, []Val{recv, arg}, fn.Signature.Results().At(0).Type(), e.st)
		case "returned": // returned(NAME): what the latest call of NAME in this function's body returned
			id, ok := x.Args[0].(*SIdent)
			if !ok || (len(x.Args) != 1 && len(x.Args) != 2) {
				e.fail("returned() takes a function or method name and optionally the ordinal of a call site")
			}
			if len(x.Args) == 2 {
				id = &SIdent{Name: id.Name + "#" + x.Args[1].String()}
			}
			v, found := c.lastCall[id.Name]
			if !found {
				// the call is translated later than this clause (block order): when the function has exactly one
				// call of that name, a placeholder stands for its result and is identified with it once it exists
				if pv, ok := e.preReturned(id.Name); ok {
					return pv
				}
				e.fail("returned(%s): no call of %s precedes this point", id.Name, id.Name)
			}
			if hist := c.callHist[id.Name]; len(hist) > 1 && e.f != nil {
				// several calls: the latest one that happened on the path to this point
				var vs []Val
				var conds []string
				mergeable := true
				for i := len(hist) - 1; i >= 0; i-- {
					vs = append(vs, hist[i].val)
					conds = append(conds, hist[i].cond)
					if hist[i].val.P != nil || hist[i].val.Clo != nil {
						mergeable = false
					}
				}
				if mergeable {
					c.qcount++
					return e.f.mergeVals(v.T, vs, conds, fmt.Sprintf("%sret_%s_%d", e.f.prefixSym(), sanitize(id.Name), c.qcount))
				}
			}
			if cb := c.lastCallBlock[id.Name]; cb != nil && e.block != nil && cb != e.block && !cb.Dominates(e.block) {
				// the call may not have happened on the path to this point: the clause has to be guarded by a
				// condition that implies it did (the value is the call's result symbol either way)
				c.note("returned(%s) is used at a point the call does not dominate: meaningful only under a guard that implies the call happened", id.Name)
			}
			return v
		case "before": // before(NAME, E): E evaluated in the state in which the latest call of NAME started
			id, ok := x.Args[0].(*SIdent)
			if !ok || len(x.Args) != 2 {
				e.fail("before() takes a call name and an expression")
			}
			st, found := c.callPre[id.Name]
			if !found {
				e.fail("before(%s, ..): no call of %s precedes this point", id.Name, id.Name)
			}
			ne := e.clone()
			ne.st = st
			for i, a := range c.callPreArgs[id.Name] {
				ne.names[fmt.Sprintf("arg%d", i)] = a // the call's own arguments
			}
			return ne.eval(x.Args[1])
		case "ran": // ran(NAME): control went through the block in which the local NAME (exactly one definition) is declared —
			// the guard a checked clause needs before it mentions a variable of a branch that may have been skipped. Inside a
			// loop body the predicate speaks about the current iteration (the body is a DAG from the havocked header).
			id, ok := x.Args[0].(*SIdent)
			if !ok || len(x.Args) != 1 || e.f == nil {
				e.fail("ran() takes the name of a local variable")
			}
			defs := e.f.defsOf(id.Name)
			var blk *ssa.BasicBlock
			for _, d := range defs {
				if d.addr || d.val != defs[0].val {
					e.fail("ran(%s): %s is assigned more than once (or lives in memory); exactly one definition is needed", id.Name, id.Name)
				}
			}
			if len(defs) > 0 {
				if in, ok := defs[0].val.(ssa.Instruction); ok {
					blk = in.Block()
				}
			}
			if blk == nil {
				e.fail("ran(%s): no local of that name is defined by an instruction of this function", id.Name)
			}
			re := e.f.reach[blk]
			if re == "" {
				re = "false" // block not processed: unreachable
			}
			return Val{T: boolT, S: re}
		case "effects":
			return Val{T: types.Typ[types.Int], S: e.st.get(HeapKey{Name: "G_effects", Sort: "Int"})}
		case "calls": // calls(NAME): how many calls of NAME this activation has made so far (ghost counter, callassert.go)
			if (len(x.Args) != 1 && len(x.Args) != 2) || e.st == nil {
				e.fail("calls() takes one function / field / parameter name and optionally the ordinal of a call site")
			}
			name := x.Args[0].String()
			if len(x.Args) == 2 {
				name += "#" + x.Args[1].String()
			}
			return Val{T: types.Typ[types.Int], S: e.st.get(callsKey(name))}
		case "fresh": // fresh(x): the object / backing array x refers to was allocated during this call (or x is nil)
			v := e.eval(x.Args[0])
			if e.old == nil {
				e.fail("fresh() used where no entry state exists")
			}
			w := e.old.watermark()
			switch refKind(v.T) {
			case "ptr":
				return Val{T: boolT, S: fmt.Sprintf("(or (= %s 0) (> %s %s))", c.termOf(v), c.termOf(v), w)}
			case "slice":
				return Val{T: boolT, S: fmt.Sprintf("(or (= (s_ref %s) 0) (> (s_ref %s) %s))", v.S, v.S, w)}
			}
			e.fail("fresh() needs a pointer, map, channel or slice")
		case "typeis": // typeis(ifaceValue, T)
			v := e.eval(x.Args[0])
			tn := x.Args[1].String()
			t := e.lookupType(tn)
			return Val{T: boolT, S: fmt.Sprintf("(= (i_tag %s) %d)", v.S, c.typeID(t))}
		}
		// conversion?
		if len(x.Args) == 1 && e.isTypeName(id.Name) {
			t := e.lookupType(id.Name)
			a := e.eval(x.Args[0])
			return e.convert(a, t)
		}
		if sf, ok := c.eng.cs.SpecFns[id.Name]; ok {
			return e.callSpecFn(sf, x.Args)
		}
		if gd, ok := c.eng.cs.Ghosts[id.Name]; ok && len(x.Args) == 1 {
			return e.ghostRead(gd, e.eval(x.Args[0]))
		}
		// package-level Go function used as pure
		if e.pkg != nil && c.eng != nil {
			if fn := c.eng.pkgFunc(e.pkg, id.Name); fn != nil {
				var args []Val
				for i, a := range x.Args {
					v := e.eval(a)
					if i < len(fn.Params) {
						v = e.coerce(v, fn.Params[i].Type())
					}
					args = append(args, v)
				}
				return e.callPure(fn, args)
			}
		}
		e.fail("unknown function %s", id.Name)
	}
	if sel, ok := x.Fun.(*SSelector); ok {
		// package-qualified function:  time.ParseDuration(x)
		if pid, isId := sel.X.(*SIdent); isId && e.pkg != nil {
			if _, shadow := e.names[pid.Name]; !shadow {
				if _, isLocal := e.tryIdent(pid.Name); !isLocal {
					for _, imp := range e.pkg.Imports() {
						if imp.Name() != pid.Name {
							continue
						}
						fobj, isFn := imp.Scope().Lookup(sel.Sel).(*types.Func)
						if !isFn {
							break
						}
						fn := c.eng.prog.FuncValue(fobj)
						if fn == nil {
							e.fail("no SSA for %s.%s", pid.Name, sel.Sel)
						}
						var args []Val
						for i, a := range x.Args {
							v := e.eval(a)
							if i < len(fn.Params) {
								v = e.coerce(v, fn.Params[i].Type())
							}
							args = append(args, v)
						}
						return e.callPure(fn, args)
					}
				}
			}
		}
		// method call on a value:  m.values()
		recv := e.eval(sel.X)
		obj, _, _ := types.LookupFieldOrMethod(recv.T, true, e.pkg, sel.Sel)
		m, ok := obj.(*types.Func)
		if !ok {
			e.fail("no method %s on %v", sel.Sel, recv.T)
		}
		fn := c.eng.prog.FuncValue(m)
		if fn == nil {
			e.fail("no SSA for method %s", m.FullName())
		}
		args := []Val{recv}
		// adjust receiver (value vs pointer)
		if len(fn.Params) > 0 {
			want := fn.Params[0].Type()
			_, wantPtr := want.Underlying().(*types.Pointer)
			_, havePtr := recv.T.Underlying().(*types.Pointer)
			if wantPtr && !havePtr {
				// pointer-receiver method on a value (e.g. an element of a slice): evaluate it on a temporary copy
				if e.st == nil {
					e.fail("method %s on a value needs a state", sel.Sel)
				}
				c.needDecl("spec_tmp_ref", "(declare-const spec_tmp_ref Int)")
				if !c.needed["spec_tmp_ref_ax"] {
					c.needed["spec_tmp_ref_ax"] = true
					c.axiom("(= spec_tmp_ref (- 999983))", "spec_tmp_ref")
				}
				elemT := want.Underlying().(*types.Pointer).Elem()
				tp := &Ptr{Root: "spec_tmp_ref", Obj: elemT}
				c.inlineDefs++
				tmpSt := c.store(e.st, tp, recv.S)
				c.inlineDefs--
				ne := e.clone()
				ne.st = tmpSt
				args[0] = Val{T: want, P: tp}
				for i, a := range x.Args {
					v := e.eval(a)
					if i+1 < len(fn.Params) {
						v = e.coerce(v, fn.Params[i+1].Type())
					}
					args = append(args, v)
				}
				return ne.callPure(fn, args)
			}
			if !wantPtr && havePtr {
				p := c.ptrOf(recv)
				args[0] = Val{T: want, S: c.load(e.st, p, want)}
			}
		}
		for i, a := range x.Args {
			v := e.eval(a)
			if i+1 < len(fn.Params) {
				v = e.coerce(v, fn.Params[i+1].Type())
			}
			args = append(args, v)
		}
		return e.callPure(fn, args)
	}
	e.fail("unsupported call %s", x)
	return Val{}
}

func (e *SpecEnv) oldMode() { e.inOld = true }

func (e *SpecEnv) convert(a Val, t types.Type) Val {
	c := e.c
	if isUntyped(a.T) {
		return e.coerce(a, t)
	}
	_, _, fi := intInfo(a.T)
	_, _, ti := intInfo(t)
	switch {
	case fi && ti:
		return Val{T: t, S: c.convertInt(a.S, a.T, t)}
	case isString(a.T) && isString(t):
		return Val{T: t, S: a.S}
	case fi && isFloat(t):
		// the same uninterpreted conversions the translation of code uses
		c.uf("int_to_flt", fmt.Sprintf("(%s) Flt", c.so.intSort(a.T)))
		return Val{T: t, S: fmt.Sprintf("(int_to_flt %s)", a.S)}
	case isFloat(a.T) && ti:
		fn := "flt_to_" + c.so.typeName(t)
		c.uf(fn, fmt.Sprintf("(Flt) %s", c.so.intSort(t)))
		return Val{T: t, S: fmt.Sprintf("(%s %s)", fn, a.S)}
	case isByteSlice(a.T) && isString(t):
		return Val{T: t, S: c.bytesToStr(e.st.get(c.so.heapArr(types.Typ[types.Byte])), a.S)}
	}
	if types.Identical(a.T.Underlying(), t.Underlying()) {
		return Val{T: t, S: a.S, P: a.P}
	}
	e.fail("unsupported conversion %v -> %v", a.T, t)
	return Val{}
}

func (e *SpecEnv) callSpecFn(sf *SpecFn, argx []SpecExpr) Val {
	c := e.c
	if sf.Macro {
		// `specfn macro`: the body is evaluated here, with the arguments' values, in the state of the using clause
		if len(argx) != len(sf.Params) || sf.Body == nil {
			e.fail("macro %s expects %d args and a body", sf.Name, len(sf.Params))
		}
		ne := e.clone()
		ne.names = map[string]Val{}
		ne.lets = nil
		ne.results = nil
		ne.resNames = nil
		ne.f = nil
		if dp := c.eng.typesPkg(sf.Pkg); dp != nil {
			ne.pkg = dp
		}
		for i, a := range argx {
			v := e.eval(a)
			ne.names[sf.Params[i].Name] = e.coerce(v, e.specFnType(sf, sf.Params[i].Type))
		}
		if c.qdepth == 0 {
			// keep the expansion self-contained (no global names for terms that may sit under binders later)
			c.inlineDefs++
			defer func() { c.inlineDefs-- }()
		}
		body := ne.eval(sf.Body)
		return ne.coerce(body, e.specFnType(sf, sf.Ret))
	}
	c.declareSpecFn(e, sf)
	if len(argx) != len(sf.Params) {
		e.fail("specfn %s expects %d args", sf.Name, len(sf.Params))
	}
	var ts []string
	for i, a := range argx {
		v := e.eval(a)
		pt := e.specFnType(sf, sf.Params[i].Type)
		v = e.coerce(v, pt)
		ts = append(ts, c.termOf(v))
		if st, isSlice := pt.Underlying().(*types.Slice); isSlice {
			// a slice argument is passed together with the current contents of its backing array
			if v.Arr != "" {
				ts = append(ts, v.Arr)
			} else {
				if e.st == nil {
					e.fail("slice passed to spec function %s without a state", sf.Name)
				}
				ts = append(ts, fmt.Sprintf("(select %s (s_ref %s))", e.st.get(c.so.heapArr(st.Elem())), v.S))
			}
		}
	}
	// heaps the body reads are hidden parameters: pass their current contents
	for _, k := range c.specFnHeaps[sf.Name] {
		if e.st == nil {
			e.fail("spec function %s reads memory (%s) and is used where no state exists", sf.Name, k.Name)
		}
		ts = append(ts, e.st.get(k))
	}
	rt := e.specFnType(sf, sf.Ret)
	if len(ts) == 0 {
		return Val{T: rt, S: "sf_" + sf.Name}
	}
	return Val{T: rt, S: fmt.Sprintf("(sf_%s %s)", sf.Name, strings.Join(ts, " "))}
}

func (c *FuncCtx) declareSpecFn(e *SpecEnv, sf *SpecFn) {
	if c.specFnDeclared[sf.Name] {
		return
	}
	c.specFnDeclared[sf.Name] = true
	var ps, sorts []string
	ne := &SpecEnv{c: c, pkg: e.pkg, names: map[string]Val{}, st: nil}
	if dp := c.eng.typesPkg(sf.Pkg); dp != nil {
		ne.pkg = dp // the body is written in the scope of the defining package (unexported fields, package names)
	}
	for _, p := range sf.Params {
		t := e.specFnType(sf, p.Type)
		s := c.so.sortOf(t)
		pn := p.Name + "!p"
		ps = append(ps, fmt.Sprintf("(%s %s)", pn, s))
		sorts = append(sorts, s)
		pv := Val{T: t, S: pn}
		if st, isSlice := t.Underlying().(*types.Slice); isSlice {
			an := p.Name + "!arr"
			as := fmt.Sprintf("(Array %s %s)", c.so.idxSort(), c.so.sortOf(st.Elem()))
			ps = append(ps, fmt.Sprintf("(%s %s)", an, as))
			sorts = append(sorts, as)
			pv.Arr = an
		}
		ne.names[p.Name] = pv
	}
	rs := c.so.sortOf(e.specFnType(sf, sf.Ret))
	name := "sf_" + sf.Name
	opaque := false
	if sf.Body != nil && c.mode == ModeInt && strings.ContainsAny(sf.Body.String(), "^&|") && !strings.Contains(sf.Body.String(), "&&") && !strings.Contains(sf.Body.String(), "||") {
		opaque = true
	} else if sf.Body != nil && c.mode == ModeInt && (strings.Contains(sf.Body.String(), " ^ ") || strings.Contains(sf.Body.String(), " << ") || strings.Contains(sf.Body.String(), " & ")) {
		opaque = true
	}
	if opaque {
		c.assume("spec function " + sf.Name + " is defined with bit operations; in mode int it is used as an uninterpreted function (its definition is only unfolded in mode bv proofs)")
	}
	if sf.Body == nil || opaque {
		c.addDef(Def{Sym: name, Text: fmt.Sprintf("(declare-fun %s (%s) %s)", name, strings.Join(sorts, " "), rs)})
		// attach axioms mentioning it lazily: all axioms are added once per ctx
		c.addSpecAxioms(e)
		return
	}
	kw := "define-fun"
	if sf.Rec {
		kw = "define-fun-rec"
		// make the symbol known before evaluating the body
		c.symIdx[name] = len(c.defs)
	}
	// the body is evaluated over a parameter state: every heap it reads (through pointers inside its arguments, e.g.
	// the payload of a message) becomes a hidden parameter, passed by every caller from its own state
	var used []HeapKey
	ne.st = &State{c: c, kind: stParam, cache: map[string]string{}, used: &used, inl: true}
	ne.old = ne.st
	c.inlineDefs++ // terms of the body mention the parameters: they cannot get global names
	defer func() { c.inlineDefs-- }()
	body := ne.eval(sf.Body)
	if sf.Rec && len(used) > 0 {
		// the recursive calls inside the body were made before the heap list was known: evaluate again with it
		for pass := 0; pass < 3; pass++ {
			n := len(used)
			c.specFnHeaps[sf.Name] = append([]HeapKey(nil), used...)
			body = ne.eval(sf.Body)
			if len(used) == n {
				break
			}
		}
	}
	c.specFnHeaps[sf.Name] = append([]HeapKey(nil), used...)
	for _, k := range used {
		ps = append(ps, fmt.Sprintf("(%s!hp %s)", k.Name, k.Sort))
		sorts = append(sorts, k.Sort)
	}
	body = ne.coerce(body, e.specFnType(sf, sf.Ret))
	if sf.Opaque && len(ps) > 0 && !(c.inLemma && sf.Abstract && !sf.Rec) {
		var pnames []string
		for _, p := range sf.Params {
			pnames = append(pnames, p.Name+"!p")
			if _, isSlice := e.specFnType(sf, p.Type).Underlying().(*types.Slice); isSlice {
				pnames = append(pnames, p.Name+"!arr")
			}
		}
		for _, k := range used {
			pnames = append(pnames, k.Name+"!hp")
		}
		app := fmt.Sprintf("(%s %s)", name, strings.Join(pnames, " "))
		c.addDef(Def{Sym: name, Text: fmt.Sprintf("(declare-fun %s (%s) %s)", name, strings.Join(sorts, " "), rs)})
		if sf.Abstract && !c.inLemma {
			// `specfn abstract`: outside lemma proofs only the proved lemmas about the function are known (its
			// definition would bring e.g. nonlinear arithmetic back into every query)
			c.note("spec function %s is abstract here: only its proved lemmas are used, not its definition", sf.Name)
		} else {
			c.axiom(fmt.Sprintf("(forall (%s) (! (= %s %s) :pattern (%s)))", strings.Join(ps, " "), app, c.termOf(body), app), name)
		}
		c.addSpecAxioms(e)
		return
	}
	c.addDef(Def{Sym: name, Text: fmt.Sprintf("(%s %s (%s) %s %s)", kw, name, strings.Join(ps, " "), rs, c.termOf(body))})
	c.addSpecAxioms(e)
}

// addSpecAxioms adds every user axiom whose spec functions are all declared.
func (c *FuncCtx) addSpecAxioms(e *SpecEnv) {
	if c.addingAxioms {
		return
	}
	c.addingAxioms = true
	defer func() { c.addingAxioms = false }()
	if c.axiomDone == nil {
		c.axiomDone = map[int]bool{}
	}
	for i, ax := range c.eng.cs.Axioms {
		if c.axiomDone[i] {
			continue
		}
		if c.inLemma && ax.Proved && i >= c.lemmaAxLimit {
			continue
		}
		// only when at least one used specfn appears in the axiom text
		used := false
		var trig []string
		for name := range c.specFnDeclared {
			if containsIdent(ax.Text, name) {
				used = true
				trig = append(trig, "sf_"+name)
			}
		}
		if !used {
			continue
		}
		c.axiomDone[i] = true
		ne := &SpecEnv{c: c, pkg: e.pkg, names: map[string]Val{}}
		t, err := ne.evalBool(ax.Expr)
		if err != nil {
			panic(specErr{fmt.Sprintf("axiom %s: %v", ax.Name, err)})
		}
		if ax.Proved {
			c.note("lemma %s (proved as its own obligation) used as an axiom", ax.Name)
		} else {
			c.assume("user axiom: " + ax.Name + ": " + ax.Text)
		}
		c.axiom(t, trig[:1]...)
	}
}

func containsIdent(text, name string) bool {
	i := 0
	for {
		j := strings.Index(text[i:], name)
		if j < 0 {
			return false
		}
		j += i
		before := j == 0 || !isIdentChar(text[j-1])
		after := j+len(name) >= len(text) || !isIdentChar(text[j+len(name)])
		if before && after {
			return true
		}
		i = j + len(name)
	}
}

func isIdentChar(b byte) bool {
	return b == '_' || b >= 'a' && b <= 'z' || b >= 'A' && b <= 'Z' || b >= '0' && b <= '9'
}

// callPure evaluates a loop-free Go function as a term by inlining it.
func (e *SpecEnv) callPure(fn *ssa.Function, args []Val) Val {
	c := e.c
	if e.st == nil && !pureExternal(fullName(fn)) {
		if con := c.eng.contractFor(fn); con == nil || !con.Pure {
			e.fail("pure call %s without state", fn.Name())
		}
	}
	if c.qdepth > 0 {
		c.inlineDefs++
		defer func() { c.inlineDefs-- }()
	}
	// contract marked pure with uninterpreted semantics?
	rt := fn.Signature.Results()
	var t types.Type = rt
	if rt.Len() == 1 {
		t = rt.At(0).Type()
	}
	name := fullName(fn)
	if con := c.eng.contractFor(fn); con != nil && con.Pure {
		return c.pureApp(fn, args, t, e.st)
	}
	if h, ok := builtinModels[name]; ok && h.pure != nil {
		return h.pure(e, args, t)
	}
	if pureExternal(name) {
		fr := e.f
		if fr == nil {
			fr = c.newFrame(fn, nil)
		}
		cur := &blockCur{f: fr, b: fn.Blocks[0], st: e.st, reach: "true"}
		return fr.pureUF(cur, fn, args, t, "spec_"+quoteSymInner(fn.Name()))
	}
	host := e.f
	if host == nil {
		host = c.newFrame(fn, nil)
	}
	var blk *ssa.BasicBlock
	if len(fn.Blocks) > 0 {
		blk = fn.Blocks[0]
	}
	cur := &blockCur{f: host, b: blk, st: e.st, reach: "true"}
	nobl := len(c.obls)
	c.pureSeq++
	c.pureSpec++
	defer func() { c.pureSpec-- }()
	v, ok := host.inlineCall(cur, nil, fn, args, nil, t, fmt.Sprintf("pure%d_%s", c.pureSeq, quoteSymInner(fn.Name())))
	c.obls = c.obls[:nobl]
	if !ok {
		e.fail("cannot evaluate %s as a pure function (loops or unsupported instructions)", fn.Name())
	}
	return v
}

// preReturned: placeholder for the result of the unique, not yet translated call of `name` in the function under
// verification (single-valued results only).
func (e *SpecEnv) preReturned(name string) (Val, bool) {
	c := e.c
	if e.f == nil || c.rootFn == nil {
		return Val{}, false
	}
	var hit ssa.CallInstruction
	n := 0
	for _, b := range c.rootFn.Blocks {
		for _, in := range b.Instrs {
			ci, ok := in.(ssa.CallInstruction)
			if !ok {
				continue
			}
			if assertMatches(name, ci.Common(), ci.Common().StaticCallee()) {
				hit = ci
				n++
			}
		}
	}
	call, isCall := hit.(*ssa.Call)
	if n != 1 || !isCall {
		return Val{}, false
	}
	if c.preRet == nil {
		c.preRet = map[ssa.Instruction]Val{}
	}
	if v, ok := c.preRet[call]; ok {
		return v, true
	}
	root := e.f
	for root.callerFrame != nil {
		root = root.callerFrame
	}
	saved := c.inlineDefs
	c.inlineDefs = 0
	v := root.freshVal(call.Type(), "pre_"+sanitize(name))
	c.inlineDefs = saved
	c.preRet[call] = v
	return v, true
}
