package main

// Package-level error values (`var ErrX = errors.New(...)`): when the variable is written only by the package
// initialiser, every load of it yields the same non-nil interface value; distinct such variables hold distinct values.

import (
	"fmt"
	"go/types"
	"strings"

	"golang.org/x/tools/go/ssa"
)

var globalErrMemo = map[*ssa.Global]int{} // 0 unknown, 1 yes, 2 no

func isInitOnlyErrorGlobal(e *Engine, g *ssa.Global) bool {
	switch globalErrMemo[g] {
	case 1:
		return true
	case 2:
		return false
	}
	ok := false
	if g.Pkg != nil && g.Pkg.Pkg != nil && isStdlibPath(g.Pkg.Pkg.Path()) && g.Object() != nil && g.Object().Exported() && isErrorType(g.Type()) {
		// an exported error variable of the standard library (io.EOF, context.DeadlineExceeded, os.ErrDeadlineExceeded ...):
		// nobody reassigns those (assumption, listed); fixed, non-nil and distinct like the module's own sentinels
		globalErrMemo[g] = 1
		return true
	}
	if initFn := g.Pkg.Func("init"); initFn != nil {
		for _, b := range initFn.Blocks {
			for _, in := range b.Instrs {
				st, isStore := in.(*ssa.Store)
				if !isStore || st.Addr != ssa.Value(g) {
					continue
				}
				v := st.Val
				if mi, isMI := v.(*ssa.MakeInterface); isMI {
					v = mi.X
				}
				if call, isCall := v.(*ssa.Call); isCall {
					if callee := call.Call.StaticCallee(); callee != nil {
						switch callee.String() {
						case "errors.New", "fmt.Errorf":
							ok = true
						}
					}
				}
				if _, isAlloc := v.(*ssa.Alloc); isAlloc {
					ok = true // &T{...}: a non-nil pointer
				}
			}
		}
	}
	if ok && globalReadOnlyValue(e, g) != nil {
		ok = false
	}
	if ok {
		globalErrMemo[g] = 1
	} else {
		globalErrMemo[g] = 2
	}
	return ok
}

// globalReadOnlyValue: no function other than init stores to (or takes the address of) the scalar global g.
func globalReadOnlyValue(e *Engine, g *ssa.Global) error {
	for fn := range ssautilAllFunctions(e.prog) {
		if fn == nil {
			continue
		}
		pk := fn.Pkg
		for p := fn.Parent(); pk == nil && p != nil; p = p.Parent() {
			pk = p.Pkg
		}
		if pk != g.Pkg && (g.Object() == nil || !g.Object().Exported()) {
			continue
		}
		if fn.Name() == "init" && fn.Pkg == g.Pkg {
			continue
		}
		for _, b := range fn.Blocks {
			for _, in := range b.Instrs {
				for _, op := range in.Operands(nil) {
					if *op != ssa.Value(g) {
						continue
					}
					switch x := in.(type) {
					case *ssa.UnOp, *ssa.DebugRef:
					case *ssa.Store:
						if x.Addr == ssa.Value(g) {
							return fmt.Errorf("stored in %s", fn.Name())
						}
						return fmt.Errorf("address stored in %s", fn.Name())
					default:
						return fmt.Errorf("used by %T in %s", in, fn.Name())
					}
				}
			}
		}
	}
	return nil
}

// globalLoadFacts: facts about a value just loaded from a package-level variable.
func (f *Frame) globalLoadFacts(cur *blockCur, g *ssa.Global, v Val) {
	c := f.c
	name, ok := c.globalErrConst(g, v.T)
	if !ok {
		return
	}
	cur.assume(fmt.Sprintf("(= %s %s)", v.S, name))
}

// globalErrConst: the constant that stands for the (fixed) value of an init-only package-level error variable.
func (c *FuncCtx) globalErrConst(g *ssa.Global, t types.Type) (string, bool) {
	if !isInitOnlyErrorGlobal(c.eng, g) {
		return "", false
	}
	name := "gv_" + quoteSymInner(g.Pkg.Pkg.Name()+"_"+g.Name())
	sort := c.so.sortOf(t)
	if !c.needed[name] {
		c.needDecl(name, fmt.Sprintf("(declare-const %s %s)", name, sort))
		c.gerrIdx++
		switch sort {
		case "Iface":
			c.axiom(fmt.Sprintf("(and (not (= %s iface_nil)) (= (i_val %s) (- %d)))", name, name, 500000+c.gerrIdx), name)
		case "Int":
			c.axiom(fmt.Sprintf("(= %s (- %d))", name, 500000+c.gerrIdx), name)
		}
		c.assume("package-level error values written only by init are fixed, non-nil and pairwise distinct (" + g.Name() + ")")
	}
	return name, true
}

func isStdlibPath(p string) bool {
	first := p
	if i := strings.IndexByte(p, '/'); i >= 0 {
		first = p[:i]
	}
	return !strings.Contains(first, ".")
}

func isErrorType(t types.Type) bool {
	if pt, ok := t.Underlying().(*types.Pointer); ok {
		t = pt.Elem()
	}
	n, ok := t.(*types.Named)
	return ok && n.Obj().Pkg() == nil && n.Obj().Name() == "error"
}
