package main

import (
	"os"
	"path/filepath"
)

func writeTmp(dir, name, text string) string {
	p := filepath.Join(dir, name)
	os.WriteFile(p, []byte(text), 0o644)
	return p
}
