package main

import (
	"fmt"
	"go/types"
	"regexp"
	"sort"
	"strings"

	"golang.org/x/tools/go/ssa"
)

// lookupLocal resolves a source-level name at a program point.
func (f *Frame) lookupLocal(name string, at *ssa.BasicBlock, st *State) (Val, bool) {
	c := f.c
	if f.fn == nil {
		return Val{}, false
	}
	spilled := false
	if at != nil {
		for _, d := range f.defsOf(name) {
			if d.addr {
				spilled = true // the parameter lives in a local variable that the body may assign: use its current value
			}
		}
		// a parameter that the body reassigns is an ordinary SSA variable: its current value at `at` is the nearest
		// dominating phi / definition, not the entry value
		if v, ok := f.lookupDominating(name, at, st); ok {
			return v, true
		}
	}
	for _, p := range f.fn.Params {
		if p.Name() == name && !spilled {
			if v, ok := f.vals[p]; ok {
				return v, true
			}
		}
	}
	for _, fv := range f.fn.FreeVars {
		if fv.Name() == name {
			v, ok := f.vals[fv]
			if !ok {
				return Val{}, false
			}
			el := fv.Type().Underlying().(*types.Pointer).Elem()
			if st == nil {
				return Val{}, false
			}
			return Val{T: el, S: c.load(st, c.ptrOf(v), el)}, true
		}
	}
	if at == nil {
		return Val{}, false
	}
	if v, ok := f.lookupDominating(name, at, st); ok {
		return v, true
	}
	// a variable declared in a block that does not dominate this point (e.g. inside an `if` that may have been
	// skipped): when it has exactly one definition, that value is used. Its symbol exists whether or not the block
	// ran; a clause that mentions it has to be guarded by something that implies the block ran (only checked
	// clauses — asserts, where-defined postconditions — ever look such names up).
	if defs := f.defsOf(name); f.relaxedLocals && len(defs) >= 1 && !defs[0].addr {
		same := true
		for _, d := range defs {
			if d.val != defs[0].val || d.addr {
				same = false
			}
		}
		if v, ok := f.vals[defs[0].val]; ok && same {
			return v, true
		}
	}
	return Val{}, false
}

// lookupDominating: nearest dominating phi / definition of a source variable at the entry of block `at`.
// spilledVar: the variable lives in memory (its address is taken): its value at any point is what its cell holds in the
// state of that point, whatever value-level debug references say about individual assignments.
func (f *Frame) spilledVar(name string, st *State) (Val, bool) {
	for _, d := range f.defsOf(name) {
		if !d.addr {
			continue
		}
		v, ok := f.vals[d.val]
		if !ok || st == nil {
			return Val{}, false
		}
		el := d.val.Type().Underlying().(*types.Pointer).Elem()
		return Val{T: el, S: f.c.load(st, f.c.ptrOf(v), el)}, true
	}
	// a variable kept in memory whose stores carry no debug reference dominating this point (a named result that a
	// deferred call forces into memory): the one allocation of the function that bears the name
	if f.fn != nil && st != nil {
		var hit *ssa.Alloc
		n := 0
		for _, b := range f.fn.Blocks {
			for _, in := range b.Instrs {
				if al, ok := in.(*ssa.Alloc); ok && al.Comment == name {
					hit = al
					n++
				}
			}
		}
		if n == 1 {
			if v, ok := f.vals[hit]; ok {
				el := hit.Type().Underlying().(*types.Pointer).Elem()
				return Val{T: el, S: f.c.load(st, f.c.ptrOf(v), el)}, true
			}
		}
	}
	return Val{}, false
}

func (f *Frame) lookupDominating(name string, at *ssa.BasicBlock, st *State) (Val, bool) {
	c := f.c
	if v, ok := f.spilledVar(name, st); ok {
		return v, true
	}
	// walk the dominator tree upwards
	for b := at; b != nil; b = b.Idom() {
		// phis of this block
		for _, in := range b.Instrs {
			phi, ok := in.(*ssa.Phi)
			if !ok {
				break
			}
			if phi.Comment == name || (name == "rangeint" && phi.Comment == "rangeint.iter") {
				if ov, ok := f.hdrPhis[b]; ok {
					if v, ok := ov[phi]; ok {
						return v, true
					}
				}
				if v, ok := f.vals[phi]; ok {
					return v, true
				}
			}
		}
		if b == at {
			continue // definitions inside the block itself are after the program point (block entry)
		}
		defs := f.defsOf(name)
		for i := len(defs) - 1; i >= 0; i-- {
			d := defs[i]
			if d.block != b {
				continue
			}
			v, ok := f.vals[d.val]
			if !ok {
				// constants / globals
				v = f.val(d.val)
			}
			if d.addr {
				el := d.val.Type().Underlying().(*types.Pointer).Elem()
				if st == nil {
					return Val{}, false
				}
				return Val{T: el, S: c.load(st, c.ptrOf(v), el)}, true
			}
			return v, true
		}
	}
	return Val{}, false
}

// lookupAtEnd resolves a name at the end of a block (for postconditions / asserts).
func (f *Frame) lookupAtEnd(name string, b *ssa.BasicBlock, st *State) (Val, bool) {
	if v, ok := f.spilledVar(name, st); ok {
		return v, true
	}
	defs := f.defsOf(name)
	for i := len(defs) - 1; i >= 0; i-- {
		d := defs[i]
		if d.block != b {
			continue
		}
		v, ok := f.vals[d.val]
		if !ok {
			if di, isInstr := d.val.(ssa.Instruction); isInstr && di.Block() == b {
				continue // defined later in this block than the current program point (call-site assertions)
			}
			v = f.val(d.val)
		}
		if d.addr {
			el := d.val.Type().Underlying().(*types.Pointer).Elem()
			return Val{T: el, S: f.c.load(st, f.c.ptrOf(v), el)}, true
		}
		return v, true
	}
	for _, in := range b.Instrs {
		phi, ok := in.(*ssa.Phi)
		if !ok {
			break
		}
		if phi.Comment == name || (name == "rangeint" && phi.Comment == "rangeint.iter") {
			if v, ok := f.vals[phi]; ok {
				return v, true
			}
		}
	}
	return f.lookupLocal(name, b, st)
}

func (f *Frame) specEnv(at *ssa.BasicBlock, st *State, results []Val) *SpecEnv {
	e := &SpecEnv{c: f.c, f: f, st: st, old: f.entry, names: map[string]Val{}, block: at, results: results}
	if f.con != nil {
		e.lets = f.con.Lets
	}
	if f.fn != nil {
		if f.fn.Pkg != nil {
			e.pkg = f.fn.Pkg.Pkg
		} else {
			for p := f.fn.Parent(); p != nil; p = p.Parent() {
				if p.Pkg != nil {
					e.pkg = p.Pkg.Pkg
					break
				}
			}
		}
		rs := f.fn.Signature.Results()
		for i := 0; i < rs.Len(); i++ {
			e.resNames = append(e.resNames, rs.At(i).Name())
		}
	}
	return e
}

// evalClauseAt evaluates a clause at a block entry (invariants) or with results (ensures, at block end).
func (f *Frame) evalClauseAt(cl *Clause, at *ssa.BasicBlock, st *State, results []Val) string {
	e := f.specEnv(at, st, results)
	if results != nil && at != nil {
		// postconditions may mention locals by their final value: resolve at end of block
		e.atEnd = true
	}
	t, err := e.evalBool(cl.Expr)
	if err != nil {
		panic(unsupportedErr{fmt.Sprintf("contract clause %q: %v", cl.Text, err)})
	}
	return t
}

// ---------------------------------------------------------------------------
// applying a callee contract at a call site

func (f *Frame) applyContract(cur *blockCur, in ssa.Instruction, con *Contract, callee *ssa.Function, method *types.Func, args []Val, bindings []Val, rt types.Type, hint string) Val {
	c := f.c
	if con.External {
		c.assume(fmt.Sprintf("external contract assumed: %s", con.Func))
	} else {
		for _, a := range args {
			f.checkTypeInv(cur, a, in, "argument of "+con.Func)
		}
	}
	env := &SpecEnv{c: c, f: nil, st: cur.st, old: cur.st, names: map[string]Val{}, lets: con.Lets}
	var sig *types.Signature
	if callee != nil {
		sig = callee.Signature
		if callee.Pkg != nil {
			env.pkg = callee.Pkg.Pkg
		} else {
			for p := callee.Parent(); p != nil; p = p.Parent() {
				if p.Pkg != nil {
					env.pkg = p.Pkg.Pkg
					break
				}
			}
		}
		for i, p := range callee.Params {
			if i < len(args) {
				v := args[i]
				v.T = p.Type()
				env.names[p.Name()] = v
			}
		}
		for i, fv := range callee.FreeVars {
			if i < len(bindings) {
				el := fv.Type().Underlying().(*types.Pointer).Elem()
				env.names[fv.Name()] = Val{T: el, S: c.load(cur.st, c.ptrOf(bindings[i]), el)}
			}
		}
	} else if method != nil {
		sig = method.Type().(*types.Signature)
		env.pkg = method.Pkg()
		env.names["recv"] = args[0]
		for i := 0; i < sig.Params().Len(); i++ {
			if i+1 < len(args) {
				v := args[i+1]
				v.T = sig.Params().At(i).Type()
				n := sig.Params().At(i).Name()
				if n == "" || n == "_" {
					n = fmt.Sprintf("arg%d", i)
				}
				env.names[n] = v
			}
		}
	}
	if env.pkg == nil && f.fn != nil && f.fn.Pkg != nil {
		env.pkg = f.fn.Pkg.Pkg
	}
	calleeName := con.Func
	// requires
	for _, cl := range con.Requires {
		t, err := env.evalBool(cl.Expr)
		if err != nil {
			f.unsupported("requires of %s: %v", calleeName, err)
		}
		f.c.addObligation(&Obligation{Name: f.oblName("pre", calleeName+"/"+clauseLabel(cl)), Class: "requires", Props: f.allProps(), Guard: cur.reach, Goal: t,
			Pos: c.eng.posString(in.Pos()), Src: cl.Text})
		cur.assume(t)
	}
	// havoc modified memory
	pre := cur.st
	post := pre
	if con.ModAll {
		f.havocAll(cur)
		post = cur.st
	} else {
		for _, item := range con.Modifies {
			post = f.havocItem(env, post, con, callee, item)
		}
		for _, fact := range c.pendingFacts {
			cur.assume(fact)
		}
		c.pendingFacts = nil
		// the ghost effect counter is always unknown after a call that is summarised by a contract; the callee's
		// postconditions may pin it down through effects()
		g := HeapKey{Name: "G_effects", Sort: "Int"}
		if _, used := c.heapKeys[g.Name]; used || contractMentionsEffects(con) {
			quiet := false
			if callee != nil && !contractMentionsEffects(con) {
				// a repository function that (transitively) calls no unknown code and performs no atomic operation
				// (syntactic summary, infer.go) cannot have counted effects
				c.eng.computeSummaries()
				if sm := c.eng.summaries[callee]; sm != nil && !sm.bad {
					quiet = true
					c.assume("callee " + calleeName0(con) + " has no counted effects (syntactic: no unknown calls, no atomics, transitively)")
				} else if c.cannotReachRootPkg(callee) {
					quiet = true // library code cannot call the methods whose calls are counted
				}
			}
			if !quiet {
				c.havocSeq++
				post = post.set(g, c.declare(fmt.Sprintf("hv%d_effects", c.havocSeq), "Int"))
			}
		}
		cur.st = post
		if !con.Pure {
			// the callee may have allocated: the allocation watermark is unknown, not lower than before (alloc.go)
			f.bumpAlloc(cur)
			post = cur.st
		}
	}
	// results
	res := f.freshVal(rt, hint)
	if con.Pure && callee != nil {
		pv := c.pureApp(callee, args, rt, pre)
		res = Val{T: rt, S: c.define(hint+"_pure", c.so.sortOf(rt), pv.S)}
	}
	cur.assume(f.typeInv(res))
	// a repository function whose returned slice is, on every return path, rooted in its own make/append (syntactic
	// check): the caller may rely on the backing array being new (or nil) — distinct from everything it holds
	if callee != nil && len(callee.Blocks) > 0 && con.Options["result-array"] == "" {
		comps := []Val{res}
		if res.Tup != nil {
			comps = res.Tup
		}
		for i, rv := range comps {
			if rv.T == nil {
				continue
			}
			if _, isSlice := rv.T.Underlying().(*types.Slice); isSlice && resultIsLocal(callee, i) {
				fr := f.freshRef(cur, fmt.Sprintf("%s_r%d_arr", hint, i))
				cur.assume(fmt.Sprintf("(or (= (s_ref %s) 0) (= (s_ref %s) %s))", rv.S, rv.S, fr))
				c.assume("slice returned by " + calleeName + " is backed by memory that function allocated (syntactic: every returned value is rooted in its own make/append)")
			}
		}
	}
	// `option result-array=fresh` / `option result-array=append:PARAM`: where the backing array of a returned slice
	// comes from (newly allocated, or PARAM's array when the result starts where PARAM starts). Without it the
	// result may alias any existing array.
	if opt := con.Options["result-array"]; opt != "" && res.Tup == nil {
		if _, isSlice := rt.Underlying().(*types.Slice); isSlice {
			fr := f.freshRef(cur, hint+"_arr")
			isFresh := fmt.Sprintf("(and (= (s_ref %s) %s) (= (s_off %s) %s))", res.S, fr, res.S, c.so.idxLit(0))
			if strings.HasPrefix(opt, "append:") {
				src, ok := env.names[strings.TrimPrefix(opt, "append:")]
				if !ok {
					f.unsupported("result-array of %s: no parameter %s", calleeName, opt)
				}
				cur.assume(fmt.Sprintf("(or %s (and (= (s_ref %s) (s_ref %s)) (= (s_off %s) (s_off %s)) (<= (s_len %s) (s_cap %s)) (= (s_cap %s) (s_cap %s))))",
					isFresh, res.S, src.S, res.S, src.S, res.S, src.S, res.S, src.S))
			} else {
				cur.assume(isFresh)
			}
		}
	}
	// whatever references the result carries exist now: they are at most the current allocation watermark
	if !con.Pure {
		cur.assume(c.refBound(res, cur.st.watermark()))
	}
	// a callee that may panic under a stated condition: the caller must be allowed to panic then
	if len(con.PanicsWhen) > 0 {
		var alts []string
		for _, cl := range con.PanicsWhen {
			t, err := env.evalBool(cl.Expr)
			if err != nil {
				f.unsupported("panics-when of %s: %v", calleeName, err)
			}
			alts = append(alts, t)
		}
		pe := or(alts...)
		allowed := "false"
		root := f
		for root.callerFrame != nil {
			root = root.callerFrame
		}
		if root.con != nil && len(root.con.PanicsWhen) > 0 {
			var ra []string
			for _, cl := range root.con.PanicsWhen {
				ra = append(ra, root.evalClauseAt(cl, nil, root.entry, nil))
			}
			allowed = or(ra...)
		}
		f.c.addObligation(&Obligation{Name: f.oblName("panic", "call "+calleeName), Class: "panic", Props: f.panicProps(), Guard: cur.reach,
			Goal: implies(pe, allowed), Pos: c.eng.posString(in.Pos()), Src: "callee " + calleeName + " panics when " + con.PanicsWhen[0].Text})
		cur.assume(not(pe))
	}
	penv := env.clone()
	penv.st = post
	penv.old = pre
	if res.Tup != nil {
		penv.results = res.Tup
	} else if rt != nil {
		if tup, ok := rt.(*types.Tuple); !ok || tup.Len() > 0 {
			penv.results = []Val{res}
		}
	}
	if sig != nil {
		for i := 0; i < sig.Results().Len(); i++ {
			penv.resNames = append(penv.resNames, sig.Results().At(i).Name())
		}
	}
	for _, cl := range con.Ensures {
		if strings.Contains(cl.Label, "where-defined") || internalCallTalk.MatchString(cl.Text) {
			continue // speaks about the callee's local variables or its own calls: proved inside the callee, of no use to callers
		}
		t, err := penv.evalBool(cl.Expr)
		if err != nil {
			f.unsupported("ensures of %s: %v", calleeName, err)
		}
		cur.assume(t)
	}
	return res
}

// havocItem forgets the memory designated by a modifies item (object-level).
func (f *Frame) havocItem(env *SpecEnv, st *State, con *Contract, callee *ssa.Function, item string) *State {
	c := f.c
	t, kind, err := c.eng.modItemType(con, callee, item)
	if err != nil {
		f.unsupported("%v", err)
	}
	// evaluate the designator (without [*] / *) to get the object reference
	if gd, argText := c.eng.ghostOf(item); gd != nil {
		ex, perr := parseSpec(argText)
		if perr != nil {
			f.unsupported("modifies %q: %v", item, perr)
		}
		e2 := env.clone()
		e2.st = st
		obj := e2.eval(ex)
		k := c.ghostKey(gd, e2)
		c.havocSeq++
		fresh := c.declare(fmt.Sprintf("hv%d_%s", c.havocSeq, k.Name), c.so.sortOf(e2.lookupType(gd.ResType)))
		return st.set(k, fmt.Sprintf("(store %s %s %s)", st.get(k), c.termOf(obj), fresh))
	}
	des := strings.TrimSuffix(item, "[*]")
	rbase, rlo, rhi, isRange := splitModRange(item)
	if isRange {
		des = rbase
	}
	des = strings.TrimPrefix(des, "*")
	c.havocSeq++
	hn := fmt.Sprintf("hv%d", c.havocSeq)
	if isRange && kind == "elems" && c.mode == ModeInt {
		// x[lo:hi]: only the elements lo..hi-1 of the slice x change; the rest of its backing array is kept
		ex, perr := parseSpec(des)
		if perr != nil {
			f.unsupported("modifies %q: %v", item, perr)
		}
		e2 := env.clone()
		e2.st = st
		sv := e2.eval(ex)
		loE, err1 := parseSpec(rlo)
		hiE, err2 := parseSpec(rhi)
		if err1 != nil || err2 != nil {
			f.unsupported("modifies %q: bad range", item)
		}
		lo := e2.idx(e2.eval(loE))
		hi := e2.idx(e2.eval(hiE))
		el := t.Underlying().(*types.Slice).Elem()
		k := c.so.heapArr(el)
		fresh := c.declare(hn+"_"+k.Name, fmt.Sprintf("(Array %s %s)", c.so.idxSort(), c.so.sortOf(el)))
		c.byteHeapAxiom(k, fresh, true)
		old := fmt.Sprintf("(select %s (s_ref %s))", st.get(k), sv.S)
		fact := fmt.Sprintf("(forall ((i!h Int)) (! (=> (or (< i!h (+ (s_off %s) %s)) (>= i!h (+ (s_off %s) %s))) (= (select %s i!h) (select %s i!h))) :pattern ((select %s i!h))))",
			sv.S, lo, sv.S, hi, fresh, old, fresh)
		c.pendingFacts = append(c.pendingFacts, fact)
		return st.set(k, fmt.Sprintf("(store %s (s_ref %s) %s)", st.get(k), sv.S, fresh))
	}
	switch {
	case strings.HasPrefix(kind, "field:"):
		// designator minus last component evaluates to the object
		i := strings.LastIndex(des, ".")
		objExpr, perr := parseSpec(des[:i])
		if perr != nil {
			f.unsupported("modifies %q: %v", item, perr)
		}
		e2 := env.clone()
		e2.st = st
		ov := e2.eval(objExpr)
		var fi int
		fmt.Sscanf(kind, "field:%d", &fi)
		stt := t.Underlying().(*types.Struct)
		k := c.so.heapField(t, stt, fi)
		fresh := c.declare(hn+"_"+k.Name, c.so.sortOf(stt.Field(fi).Type()))
		if _, isPtr := ov.T.Underlying().(*types.Pointer); !isPtr {
			f.unsupported("modifies %q: not a pointer designator", item)
		}
		return st.set(k, fmt.Sprintf("(store %s %s %s)", st.get(k), c.termOf(ov), fresh))
	case kind == "elems":
		ex, perr := parseSpec(des)
		if perr != nil {
			f.unsupported("modifies %q: %v", item, perr)
		}
		e2 := env.clone()
		e2.st = st
		sv := e2.eval(ex)
		el := t.Underlying().(*types.Slice).Elem()
		k := c.so.heapArr(el)
		fresh := c.declare(hn+"_"+k.Name, fmt.Sprintf("(Array %s %s)", c.so.idxSort(), c.so.sortOf(el)))
		c.byteHeapAxiom(k, fresh, true)
		return st.set(k, fmt.Sprintf("(store %s (s_ref %s) %s)", st.get(k), sv.S, fresh))
	case kind == "obj":
		ex, perr := parseSpec(des)
		if perr != nil {
			f.unsupported("modifies %q: %v", item, perr)
		}
		e2 := env.clone()
		e2.st = st
		pv := e2.eval(ex)
		p := c.ptrOf(pv)
		if len(p.Path) > 0 {
			// the object is embedded (slice element, field): replace it by an unknown value
			fresh := c.declare(hn+"_obj", c.so.sortOf(t))
			return c.store(st, p, fresh)
		}
		ns := st
		if stt, ok := t.Underlying().(*types.Struct); ok {
			for i := 0; i < stt.NumFields(); i++ {
				k := c.so.heapField(t, stt, i)
				fresh := c.declare(hn+"_"+k.Name, c.so.sortOf(stt.Field(i).Type()))
				ns = ns.set(k, fmt.Sprintf("(store %s %s %s)", ns.get(k), p.Root, fresh))
			}
			return ns
		}
		if at, ok := t.Underlying().(*types.Array); ok {
			k := c.so.heapArr(at.Elem())
			fresh := c.declare(hn+"_"+k.Name, fmt.Sprintf("(Array %s %s)", c.so.idxSort(), c.so.sortOf(at.Elem())))
			c.byteHeapAxiom(k, fresh, true)
			return ns.set(k, fmt.Sprintf("(store %s %s %s)", ns.get(k), p.Root, fresh))
		}
		k := c.so.heapObj(t)
		fresh := c.declare(hn+"_"+k.Name, c.so.sortOf(t))
		return ns.set(k, fmt.Sprintf("(store %s %s %s)", ns.get(k), p.Root, fresh))
	case kind == "map":
		ex, _ := parseSpec(des)
		e2 := env.clone()
		e2.st = st
		mv := e2.eval(ex)
		mt := t.Underlying().(*types.Map)
		ns := st
		kd, kv, kl := c.so.heapMapDom(mt.Key(), mt.Elem()), c.so.heapMapVal(mt.Key(), mt.Elem()), c.so.heapMapLen(mt.Key(), mt.Elem())
		ns = ns.set(kd, fmt.Sprintf("(store %s %s %s)", ns.get(kd), mv.S, c.declare(hn+"_md", fmt.Sprintf("(Array %s Bool)", c.so.sortOf(mt.Key())))))
		ns = ns.set(kv, fmt.Sprintf("(store %s %s %s)", ns.get(kv), mv.S, c.declare(hn+"_mv", fmt.Sprintf("(Array %s %s)", c.so.sortOf(mt.Key()), c.so.sortOf(mt.Elem())))))
		ln := c.declare(hn+"_ml", "Int")
		ns = ns.set(kl, fmt.Sprintf("(store %s %s %s)", ns.get(kl), mv.S, ln))
		return ns
	}
	f.unsupported("modifies %q: unsupported kind %s", item, kind)
	return st
}

// ---------------------------------------------------------------------------
// top level: verify one function against its contract

var internalCallTalk = regexp.MustCompile(`\b(returned|calls|before)\(`)

type FuncResult struct {
	Ctx      *FuncCtx
	Fn       *ssa.Function
	Contract *Contract
	Err      error
}

func (e *Engine) verifyFunc(con *Contract) *FuncResult {
	fn := e.findFunc(con.Pkg, con.Func)
	res := &FuncResult{Contract: con, Fn: fn}
	if fn == nil {
		res.Err = fmt.Errorf("contract target %s::%s not found", con.Pkg, con.Func)
		return res
	}
	c := newFuncCtx(e, con.Mode, fnDisplayName(fn)+con.Tag)
	c.rootFn = fn
	c.rootCon = con
	res.Ctx = c
	f := c.newFrame(fn, con)
	st := c.newBase()
	var facts []string
	addInput := func(name string, v Val) {
		c.regIn(name, v, st, 0)
	}
	for _, p := range fn.Params {
		v := f.freshVal(p.Type(), "p_"+p.Name())
		f.vals[p] = v
		if ti := f.typeInv(v); ti != "true" {
			facts = append(facts, ti)
		}
		if rb := c.refBound(v, st.watermark()); rb != "true" {
			facts = append(facts, rb) // arguments exist at entry: at most the entry allocation watermark
		}
		if isPointerLike(p.Type()) {
			c.inputRefs = append(c.inputRefs, v.S)
			if pt, ok := p.Type().Underlying().(*types.Pointer); ok && c.hasTypeInv(pt.Elem()) {
				obj := c.load(st, &Ptr{Root: v.S, Obj: pt.Elem()}, pt.Elem())
				facts = append(facts, fmt.Sprintf("(=> (not (= %s 0)) %s)", v.S, c.userTypeInv(Val{T: pt.Elem(), S: obj})))
			}
		}
		if sl, ok := p.Type().Underlying().(*types.Slice); ok {
			_ = sl
			c.inputRefs = append(c.inputRefs, fmt.Sprintf("(s_ref %s)", v.S))
		}
		addInput(p.Name(), v)
	}
	if recv := fn.Signature.Recv(); recv != nil && len(fn.Params) > 0 {
		if _, ok := recv.Type().Underlying().(*types.Pointer); ok {
			facts = append(facts, fmt.Sprintf("(not (= %s 0))", f.vals[fn.Params[0]].S))
			f.nonNilRoots()[f.vals[fn.Params[0]].S] = true
			c.assume("pointer receivers and captured variables are non-nil")
		}
	}
	for i0, fv := range fn.FreeVars {
		v := f.freshVal(fv.Type(), "fv_"+fv.Name())
		f.vals[fv] = v
		facts = append(facts, fmt.Sprintf("(not (= %s 0))", v.S), fmt.Sprintf("(<= %s %s)", v.S, st.watermark()))
		f.nonNilRoots()[v.S] = true
		c.inputRefs = append(c.inputRefs, v.S)
		// captured variable: its value at entry is an input of the closure
		el := fv.Type().Underlying().(*types.Pointer).Elem()
		c.regIn(fv.Name(), Val{T: el, S: c.load(st, c.ptrOf(v), el)}, st, 0)
		if capturedNeverReassigned(fn, i0) {
			// nobody assigns the captured variable after the closure is created (syntactic: the enclosing function
			// stores to it only before making the closure, every closure capturing it only loads it): unknown code
			// leaves the variable's cell alone
			c.localObjs = append(c.localObjs, localObj{ref: v.S, keys: c.heapKeysOfPtr(&Ptr{Root: v.S, Obj: el})})
			c.assume("captured variable " + fv.Name() + " is never reassigned (syntactic check over the enclosing function and its closures)")
		}
	}
	// distinct captured variables
	for i := 0; i < len(fn.FreeVars); i++ {
		for j := i + 1; j < len(fn.FreeVars); j++ {
			if types.Identical(fn.FreeVars[i].Type(), fn.FreeVars[j].Type()) {
				facts = append(facts, fmt.Sprintf("(not (= %s %s))", f.vals[fn.FreeVars[i]].S, f.vals[fn.FreeVars[j]].S))
			}
		}
	}
	f.entry = st
	for _, n := range c.trackedCalls() {
		facts = append(facts, fmt.Sprintf("(= %s 0)", st.get(callsKey(n)))) // calls(N) counts within this activation
	}
	func() {
		defer func() {
			if r := recover(); r != nil {
				if u, ok := r.(unsupportedErr); ok {
					res.Err = u
					return
				}
				panic(r)
			}
		}()
		facts = append(facts, f.assumeGlobals(st)...)
	}()
	if res.Err != nil {
		return res
	}
	for i := range facts {
		facts[i] = c.nameQuantified(facts[i], fmt.Sprintf("entry_q%d", i))
	}
	entry := c.define("entry_ti", "Bool", and(facts...))
	// requires
	var reqs []string
	func() {
		defer func() {
			if r := recover(); r != nil {
				if u, ok := r.(unsupportedErr); ok {
					res.Err = u
					return
				}
				panic(r)
			}
		}()
		for _, cl := range con.Requires {
			reqs = append(reqs, f.evalClauseAt(cl, nil, st, nil))
		}
	}()
	if res.Err != nil {
		return res
	}
	for i := range reqs {
		reqs[i] = c.nameQuantified(reqs[i], fmt.Sprintf("entry_rq%d", i))
	}
	pre := c.define("entry_pre", "Bool", and(append([]string{entry}, reqs...)...))
	// cover: the precondition is satisfiable
	c.addObligation(&Obligation{Name: fnDisplayName(fn) + "#cover:precondition", Class: "cover", Props: f.allProps(), Guard: pre, Goal: "true", Cover: true})
	if err := f.run(st, pre); err != nil {
		res.Err = err
		return res
	}
	if err := f.unmatchedAsserts(); err != nil {
		res.Err = err
		return res
	}
	f.frameObligations()
	return res
}

func (c *FuncCtx) registerInput(name string, v Val) {
	switch {
	case v.Tup != nil:
		return
	case isString(v.T):
		c.inputs = append(c.inputs, ModelVar{Name: name, Term: fmt.Sprintf("(slen %s)", v.S), Kind: "strlen"})
		for i := 0; i < 24; i++ {
			c.inputs = append(c.inputs, ModelVar{Name: fmt.Sprintf("%s[%d]", name, i), Term: fmt.Sprintf("(sat %s %s)", v.S, c.so.idxLit(int64(i))), Kind: "strbyte"})
		}
	case isBool(v.T):
		c.inputs = append(c.inputs, ModelVar{Name: name, Term: v.S, Kind: "bool"})
	default:
		if _, _, ok := intInfo(v.T); ok {
			c.inputs = append(c.inputs, ModelVar{Name: name, Term: v.S, Kind: "int"})
			return
		}
		if _, ok := v.T.Underlying().(*types.Slice); ok {
			c.inputs = append(c.inputs, ModelVar{Name: "len(" + name + ")", Term: fmt.Sprintf("(s_len %s)", v.S), Kind: "int"})
			c.inputs = append(c.inputs, ModelVar{Name: "cap(" + name + ")", Term: fmt.Sprintf("(s_cap %s)", v.S), Kind: "int"})
		}
	}
}

// frameObligations: at every return, memory outside the modifies clause is unchanged.
func (f *Frame) frameObligations() {
	c := f.c
	con := f.con
	if con == nil || con.ModAll || con.Options["noframe"] != "" {
		return
	}
	if len(con.Modifies) == 0 && c.eng.inferNoMods(f.fn) {
		c.assume("frame of " + con.Func + " inferred syntactically (stores only to objects the function created)")
		return
	}
	// `modifies *p, *q` over parameters only: accepted when the syntactic summary says the function (transitively)
	// writes only through those parameters and into objects it created
	if len(con.Modifies) > 0 {
		c.eng.computeSummaries()
		if s := c.eng.summaries[f.fn]; s != nil && !s.bad {
			allowed := map[int]bool{}
			allowedDeep := map[int]bool{}
			okForm := true
			for _, item := range con.Modifies {
				name, deepItem := "", false
				switch {
				case strings.HasPrefix(item, "(*") && strings.HasSuffix(item, ")[*]") && !strings.Contains(item, "."):
					name, deepItem = item[2:len(item)-4], true // (*p)[*]: elements of the slice p points to
				case strings.HasPrefix(item, "*") && !strings.ContainsAny(item, ".["):
					name = item[1:]
				default:
					okForm = false
				}
				if !okForm {
					break
				}
				found := false
				for i, p := range f.fn.Params {
					if p.Name() == name {
						if deepItem {
							allowedDeep[i] = true
						} else {
							allowed[i] = true
						}
						found = true
					}
				}
				if !found {
					okForm = false
				}
			}
			if okForm {
				within := true
				for i := range s.writes {
					if !allowed[i] {
						within = false
					}
				}
				for i := range s.deep {
					if !allowedDeep[i] {
						within = false
					}
				}
				if within {
					c.assume("frame of " + con.Func + " checked syntactically: writes only through the parameters named in `modifies` and into objects it created")
					return
				}
			}
		}
	}
	// keys possibly modified by the body
	touched := map[string]bool{}
	all := false
	for _, b := range f.fn.Blocks {
		for _, in := range b.Instrs {
			switch x := in.(type) {
			case *ssa.Store:
				for _, k := range f.staticHeapKeys(x.Addr) {
					touched[k] = true
				}
			case *ssa.MapUpdate:
				mt := x.Map.Type().Underlying().(*types.Map)
				touched[c.so.heapMapDom(mt.Key(), mt.Elem()).Name] = true
				touched[c.so.heapMapVal(mt.Key(), mt.Elem()).Name] = true
				touched[c.so.heapMapLen(mt.Key(), mt.Elem()).Name] = true
			case ssa.CallInstruction:
				ks, a := f.callMods(x)
				if a {
					all = true
				}
				for _, k := range ks {
					touched[k] = true
				}
			}
		}
	}
	if all {
		c.addObligation(&Obligation{Name: f.oblName("frame", "calls-with-unknown-effects"), Class: "frame", Props: f.allProps(), Guard: "true", Goal: "false",
			Src: "function calls code with unknown effects but does not declare `modifies *`"})
		return
	}
	// allowed objects per key
	type allow struct{ refs []string }
	allowed := map[string]*allow{}
	env := f.specEnv(nil, f.entry, nil)
	for _, item := range con.Modifies {
		t, kind, err := c.eng.modItemType(con, f.fn, item)
		if err != nil {
			panic(unsupportedErr{err.Error()})
		}
		des := strings.TrimPrefix(strings.TrimSuffix(item, "[*]"), "*")
		var ref string
		switch {
		case strings.HasPrefix(kind, "field:"):
			i := strings.LastIndex(des, ".")
			ex, _ := parseSpec(des[:i])
			ref = c.termOf(env.eval(ex))
		case kind == "elems":
			ex, _ := parseSpec(des)
			ref = fmt.Sprintf("(s_ref %s)", env.eval(ex).S)
		default:
			ex, _ := parseSpec(des)
			ref = c.termOf(env.eval(ex))
		}
		for _, k := range c.keysForMod(t, kind) {
			if allowed[k] == nil {
				allowed[k] = &allow{}
			}
			allowed[k].refs = append(allowed[k].refs, ref)
		}
	}
	var keys []string
	for k := range touched {
		keys = append(keys, k)
	}
	sort.Strings(keys)
	sk := c.declare("frame_r", "Int")
	for _, k := range keys {
		if strings.HasPrefix(k, "G_") {
			continue
		}
		var conds []string
		if a := allowed[k]; a != nil {
			for _, r := range a.refs {
				conds = append(conds, fmt.Sprintf("(not (= %s %s))", sk, r))
			}
		}
		for _, r := range c.allAllocs {
			conds = append(conds, fmt.Sprintf("(not (= %s %s))", sk, r))
		}
		for ri, r := range f.rets {
			hk := c.keyByName(k)
			if hk == nil {
				continue
			}
			goal := fmt.Sprintf("(= (select %s %s) (select %s %s))", r.st.get(*hk), sk, f.entry.get(*hk), sk)
			c.addObligation(&Obligation{Name: f.oblName("frame", fmt.Sprintf("%s@ret%d", k, ri)), Class: "frame", Props: f.allProps(),
				Guard: and(append([]string{r.reach}, conds...)...), Goal: goal, Src: "only memory named in `modifies` changes: " + k})
		}
	}
}

func (c *FuncCtx) keyByName(name string) *HeapKey {
	if k, ok := c.heapKeys[name]; ok {
		return &k
	}
	return nil
}

func calleeName0(con *Contract) string { return con.Func }

// capturedNeverReassigned: free variable i of closure fn refers to a variable of the enclosing function that is
// stored to only before any closure capturing it is created, and that every capturing closure only loads.
func capturedNeverReassigned(fn *ssa.Function, i int) bool {
	parent := fn.Parent()
	if parent == nil {
		return false
	}
	for _, b := range parent.Blocks {
		for _, in := range b.Instrs {
			mc, ok := in.(*ssa.MakeClosure)
			if !ok || mc.Fn != ssa.Value(fn) || i >= len(mc.Bindings) {
				continue
			}
			switch src := mc.Bindings[i].(type) {
			case *ssa.Alloc:
				if src.Referrers() == nil {
					return false
				}
				for _, r := range *src.Referrers() {
					switch x := r.(type) {
					case *ssa.DebugRef, *ssa.UnOp:
					case *ssa.Store:
						// allowed only as the variable's initialisation: in the entry block, storing a parameter / constant
						if x.Addr != ssa.Value(src) || x.Block() != parent.Blocks[0] {
							return false
						}
					case *ssa.MakeClosure:
						cf, _ := x.Fn.(*ssa.Function)
						if cf == nil {
							return false
						}
						for j, bnd := range x.Bindings {
							if bnd == ssa.Value(src) && (j >= len(cf.FreeVars) || !readOnlyCapture(cf.FreeVars[j], 0)) {
								return false
							}
						}
					default:
						return false
					}
				}
				return true
			case *ssa.FreeVar:
				// captured again from an outer closure: read-only here and there
				return readOnlyCapture(src, 0) && capturedNeverReassignedFV(parent, src)
			}
			return false
		}
	}
	return false
}

func capturedNeverReassignedFV(fn *ssa.Function, fv *ssa.FreeVar) bool {
	for i, x := range fn.FreeVars {
		if x == fv {
			return capturedNeverReassigned(fn, i)
		}
	}
	return false
}
