package main

// Allocation watermark.
//
// Object references are positive integers. The ghost state variable G_alloc is an upper bound of every reference
// that exists at a program point (in parameters, in memory, in values computed so far). An allocation returns a
// reference ABOVE the watermark and raises the watermark to it, so a new object is distinct from everything that
// existed before — including references that the function has not loaded yet (a field of the receiver, an element
// of a slice it was given). A call that may allocate raises the watermark by an unknown amount.
//
// What is assumed, and where:
//   - parameters and captured variables at entry: their references are at most the entry watermark;
//   - every heap symbol (the heap at entry, a heap after `modifies *`, the havocked heap at a loop head) holds only
//     references at most the watermark of the state in which the symbol is introduced (a quantified axiom with the
//     select term as trigger);
//   - loop-carried values and call results: at most the watermark of the loop head / of the state after the call;
//   - the watermark never decreases.
// Only pointer / map / chan cells and slice headers are covered; references inside struct values and interfaces
// are not (incomplete, never unsound: an unconstrained reference may alias anything).

import (
	"fmt"
	"strings"
)

var allocKey = HeapKey{Name: "G_alloc", Sort: "Int"}

// refBound: the references carried directly by v are at most w ("true" when v carries none).
func (c *FuncCtx) refBound(v Val, w string) string {
	if v.Tup != nil {
		var ts []string
		for _, x := range v.Tup {
			ts = append(ts, c.refBound(x, w))
		}
		return and(ts...)
	}
	if v.T == nil || v.S == "" || v.P != nil || v.Clo != nil {
		return "true"
	}
	switch refKind(v.T) {
	case "ptr":
		return fmt.Sprintf("(<= %s %s)", v.S, w)
	case "slice":
		return fmt.Sprintf("(<= (s_ref %s) %s)", v.S, w)
	}
	return "true"
}

// heapRefAxiom: the declared symbol sym (a whole heap of key k, or — cell — the value of one cell of it) holds only
// references that are at most w.
func (c *FuncCtx) heapRefAxiom(k HeapKey, sym string, cell bool, w string) {
	if k.Ref == "" || w == "" {
		return
	}
	proj := func(t string) string {
		if k.Ref == "slice" {
			return fmt.Sprintf("(s_ref %s)", t)
		}
		return t
	}
	idx := c.so.idxSort()
	isArr := strings.HasPrefix(k.Name, "A_")
	switch {
	case !isArr && !cell:
		sel := fmt.Sprintf("(select %s p!w)", sym)
		c.axiom(fmt.Sprintf("(forall ((p!w Int)) (! (<= %s %s) :pattern (%s)))", proj(sel), w, sel), sym)
	case !isArr && cell:
		c.axiom(fmt.Sprintf("(<= %s %s)", proj(sym), w), sym)
	case isArr && !cell:
		sel := fmt.Sprintf("(select (select %s p!w) i!w)", sym)
		c.axiom(fmt.Sprintf("(forall ((p!w Int) (i!w %s)) (! (<= %s %s) :pattern (%s)))", idx, proj(sel), w, sel), sym)
	default:
		sel := fmt.Sprintf("(select %s i!w)", sym)
		c.axiom(fmt.Sprintf("(forall ((i!w %s)) (! (<= %s %s) :pattern (%s)))", idx, proj(sel), w, sel), sym)
	}
}

// watermark of a state.
func (s *State) watermark() string { return s.get(allocKey) }

// bumpAlloc: after code that may allocate an unknown number of objects, the watermark is some value not below the
// old one.
func (f *Frame) bumpAlloc(cur *blockCur) {
	c := f.c
	old := cur.st.watermark()
	c.havocSeq++
	nw := c.declare(fmt.Sprintf("hv%d_alloc", c.havocSeq), "Int")
	cur.st = cur.st.set(allocKey, nw)
	cur.assume(fmt.Sprintf("(>= %s %s)", nw, old))
}

// byteHeapAxiom: a declared heap (or cell) of byte arrays holds bytes. Every store the translation makes into such a
// heap writes a value of type byte (converted, hence wrapped), so the fact is preserved by derived heaps.
func (c *FuncCtx) byteHeapAxiom(k HeapKey, sym string, cell bool) {
	if c.mode != ModeInt || k.Name != "A_uint8" {
		return
	}
	if cell {
		c.axiom(fmt.Sprintf("(forall ((i!b Int)) (! (and (<= 0 (select %s i!b)) (< (select %s i!b) 256)) :pattern ((select %s i!b))))", sym, sym, sym), sym)
		return
	}
	c.axiom(fmt.Sprintf("(forall ((p!b Int) (i!b Int)) (! (and (<= 0 (select (select %s p!b) i!b)) (< (select (select %s p!b) i!b) 256)) :pattern ((select (select %s p!b) i!b))))", sym, sym, sym), sym)
}
