package main

import (
	"bytes"
	"fmt"
	"go/ast"
	"go/printer"
	"go/token"
	"go/types"
	"os"
	"path/filepath"
	"sort"
	"strings"

	"golang.org/x/tools/go/packages"
	"golang.org/x/tools/go/ssa"
	"golang.org/x/tools/go/ssa/ssautil"
)

type Engine struct {
	dir    string
	prog   *ssa.Program
	pkgs   []*packages.Package
	all    map[string]*packages.Package
	spkgs  map[string]*ssa.Package
	cs     *ContractSet
	fset   *token.FileSet
	fnByKey map[string]*ssa.Function
	loadErrs []string
	summaries map[*ssa.Function]*frameSummary
}

func ssautilAllFunctions(prog *ssa.Program) map[*ssa.Function]bool { return ssautil.AllFunctions(prog) }

func loadEngine(dir string, patterns []string, extraSpec []string) (*Engine, error) {
	cfg := &packages.Config{Mode: packages.LoadAllSyntax, Dir: dir, BuildFlags: []string{"-tags=verif"}, Env: append(os.Environ(), "GOFLAGS=-mod=mod", "GOPROXY=off")}
	pkgs, err := packages.Load(cfg, patterns...)
	if err != nil {
		return nil, err
	}
	e := &Engine{dir: dir, pkgs: pkgs, all: map[string]*packages.Package{}, spkgs: map[string]*ssa.Package{}, cs: newContractSet(), fnByKey: map[string]*ssa.Function{}}
	for _, p := range pkgs {
		for _, er := range p.Errors {
			e.loadErrs = append(e.loadErrs, er.Error())
		}
	}
	if len(e.loadErrs) > 0 {
		return nil, fmt.Errorf("package load errors: %s", strings.Join(e.loadErrs, "; "))
	}
	prog, spkgs := ssautil.AllPackages(pkgs, ssa.InstantiateGenerics|ssa.GlobalDebug)
	prog.Build()
	e.prog = prog
	e.fset = prog.Fset
	packages.Visit(pkgs, nil, func(p *packages.Package) { e.all[p.PkgPath] = p })
	for i, p := range pkgs {
		if spkgs[i] != nil {
			e.spkgs[p.PkgPath] = spkgs[i]
		}
	}
	for _, sp := range prog.AllPackages() {
		if _, ok := e.spkgs[sp.Pkg.Path()]; !ok {
			e.spkgs[sp.Pkg.Path()] = sp
		}
	}
	// contracts: zz_verif_contracts*.go next to the sources of every loaded root package and of
	// module-local dependencies (same module directory tree)
	seen := map[string]bool{}
	var cfiles []string
	packages.Visit(pkgs, nil, func(p *packages.Package) {
		for _, f := range p.GoFiles {
			d := filepath.Dir(f)
			if seen[d] {
				continue
			}
			seen[d] = true
			ms, _ := filepath.Glob(filepath.Join(d, "zz_verif_contracts*.go"))
			for _, m := range ms {
				cfiles = append(cfiles, m+"\x00"+p.PkgPath)
			}
		}
	})
	sort.Strings(cfiles)
	for _, cf := range cfiles {
		parts := strings.SplitN(cf, "\x00", 2)
		if err := loadContractFile(e.cs, parts[0], parts[1]); err != nil {
			return nil, err
		}
	}
	for _, sp := range extraSpec {
		if err := loadContractFile(e.cs, sp, ""); err != nil {
			return nil, err
		}
	}
	e.instantiateSweeps()
	return e, nil
}

// instantiateSweeps creates a safety-only contract for every function declared in a swept file that has no
// explicit contract.
func (e *Engine) instantiateSweeps() {
	for _, sw := range e.cs.Sweeps {
		sp := e.spkgs[sw.Pkg]
		if sp == nil {
			continue
		}
		var fns []*ssa.Function
		for _, m := range sp.Members {
			switch x := m.(type) {
			case *ssa.Function:
				fns = append(fns, x)
			case *ssa.Type:
				for _, t := range []types.Type{x.Type(), types.NewPointer(x.Type())} {
					ms := e.prog.MethodSets.MethodSet(t)
					for i := 0; i < ms.Len(); i++ {
						if fn := e.prog.MethodValue(ms.At(i)); fn != nil && fn.Synthetic == "" {
							fns = append(fns, fn)
						}
					}
				}
			}
		}
		seen := map[*ssa.Function]bool{}
		var names []string
		byName := map[string]*ssa.Function{}
		for _, fn := range fns {
			if seen[fn] || fn.Pos() == token.NoPos || len(fn.Blocks) == 0 {
				continue
			}
			seen[fn] = true
			if filepath.Base(e.fset.Position(fn.Pos()).Filename) != sw.File {
				continue
			}
			name := contractName(fn)
			if sw.Exclude[name] || name == "init" {
				continue
			}
			names = append(names, name)
			byName[name] = fn
		}
		sort.Strings(names)
		for _, name := range names {
			key := sw.Pkg + "::" + name
			if _, has := e.cs.Funcs[key]; has {
				continue
			}
			c := *sw.Template
			c.Func = name
			c.Swept = true
			c.Options = map[string]string{}
			for k, v := range sw.Template.Options {
				c.Options[k] = v
			}
			if e.inferNoMods(byName[name]) {
				c.ModAll = false
				c.Modifies = nil
				c.Options["noframe"] = "frame inferred syntactically (stores only to objects the function created)"
			}
			e.cs.Funcs[key] = &c
			e.cs.Order = append(e.cs.Order, key)
			e.fnByKey[key] = byName[name]
		}
	}
}

// findFunc resolves a contract's function name inside a package.
func (e *Engine) findFunc(pkgPath, name string) *ssa.Function {
	key := pkgPath + "::" + name
	if fn, ok := e.fnByKey[key]; ok {
		return fn
	}
	sp := e.spkgs[pkgPath]
	if sp == nil {
		return nil
	}
	var res *ssa.Function
	base := name
	anon := ""
	if i := strings.Index(name, "$"); i >= 0 {
		base, anon = name[:i], name[i+1:]
	}
	if i := strings.Index(base, "."); i >= 0 {
		tn, mn := base[:i], base[i+1:]
		if obj, ok := sp.Pkg.Scope().Lookup(tn).(*types.TypeName); ok {
			for _, t := range []types.Type{obj.Type(), types.NewPointer(obj.Type())} {
				ms := e.prog.MethodSets.MethodSet(t)
				for i := 0; i < ms.Len(); i++ {
					if ms.At(i).Obj().Name() == mn {
						fn := e.prog.MethodValue(ms.At(i))
						if fn != nil && fn.Synthetic == "" {
							res = fn
						} else if fn != nil && res == nil {
							// wrapper: find the declared method
							if f2 := e.prog.FuncValue(ms.At(i).Obj().(*types.Func)); f2 != nil {
								res = f2
							}
						}
					}
				}
				if res != nil {
					break
				}
			}
		}
	} else {
		res = sp.Func(base)
	}
	if res != nil && anon != "" {
		// $1$2 ... nested anonymous functions by ordinal
		for _, part := range strings.Split(anon, "$") {
			var n int
			fmt.Sscanf(part, "%d", &n)
			if n < 1 || n > len(res.AnonFuncs) {
				res = nil
				break
			}
			res = res.AnonFuncs[n-1]
		}
	}
	e.fnByKey[key] = res
	return res
}

func (e *Engine) contractFor(fn *ssa.Function) *Contract {
	if fn == nil {
		return nil
	}
	if fn.Pkg != nil || fn.Parent() != nil {
		pk := fn.Pkg
		if pk == nil {
			for p := fn.Parent(); p != nil; p = p.Parent() {
				if p.Pkg != nil {
					pk = p.Pkg
					break
				}
			}
		}
		if pk != nil {
			if c, ok := e.cs.Funcs[pk.Pkg.Path()+"::"+contractName(fn)]; ok {
				return c
			}
		}
	}
	// externals are keyed by full name, e.g. "strings.Index" or "(*bufio.Reader).ReadByte"
	if c, ok := e.cs.Funcs[fullName(fn)]; ok {
		return c
	}
	if fn.Origin() != nil && fn.Origin() != fn {
		return e.contractFor(fn.Origin())
	}
	return nil
}

func (e *Engine) ifaceContract(cc *ssa.CallCommon) *Contract {
	if !cc.IsInvoke() {
		return nil
	}
	recv := cc.Value.Type()
	n, ok := recv.(*types.Named)
	if !ok {
		return nil
	}
	pk := n.Obj().Pkg()
	if pk == nil {
		if c, ok := e.cs.Funcs[n.Obj().Name()+"."+cc.Method.Name()]; ok {
			return c
		}
		return nil
	}
	if c, ok := e.cs.Funcs[pk.Path()+"::"+n.Obj().Name()+"."+cc.Method.Name()]; ok {
		return c
	}
	if c, ok := e.cs.Funcs[pk.Path()+"."+n.Obj().Name()+"."+cc.Method.Name()]; ok {
		return c
	}
	return nil
}

const inlineMaxInstrs = 120

func (e *Engine) canInline(fn *ssa.Function, depth int) bool {
	if fn == nil || len(fn.Blocks) == 0 || depth >= 4 {
		return false
	}
	// only code of the repository under verification is ever unfolded; library code needs a contract or a model
	pk := fn.Pkg
	for p := fn.Parent(); pk == nil && p != nil; p = p.Parent() {
		pk = p.Pkg
	}
	if pk == nil && fn.Origin() != nil {
		pk = fn.Origin().Pkg // an instance of a generic function belongs to the package of the generic
	}
	if pk == nil || !strings.HasPrefix(pk.Pkg.Path(), "github.com/redis/rueidis") {
		return false
	}
	n := 0
	for _, b := range fn.Blocks {
		n += len(b.Instrs)
		for _, s := range b.Succs {
			if s.Dominates(b) {
				return false // loop
			}
		}
	}
	if fn.Recover != nil {
		return false
	}
	return n <= inlineMaxInstrs
}

func (e *Engine) canInlineForce(fn *ssa.Function) bool { return e.canInline(fn, 0) }

func (e *Engine) posString(p token.Pos) string {
	if !p.IsValid() {
		return ""
	}
	ps := e.fset.Position(p)
	return fmt.Sprintf("%s:%d", filepath.Base(ps.Filename), ps.Line)
}

func (e *Engine) sourceText(p token.Pos) string { return "" }

// exprTextAt returns normalised source text of the expression that produced an instruction.
func (e *Engine) exprTextAt(fn *ssa.Function, in ssa.Instruction) string {
	if in == nil {
		return ""
	}
	pos := in.Pos()
	if !pos.IsValid() {
		return fmt.Sprintf("%T", in)
	}
	node := e.nodeAt(fn, pos, in)
	if node == nil {
		return e.posFallback(in)
	}
	var buf bytes.Buffer
	printer.Fprint(&buf, e.fset, node)
	s := strings.Join(strings.Fields(buf.String()), " ")
	if len(s) > 80 {
		s = s[:80]
	}
	return s
}

func (e *Engine) posFallback(in ssa.Instruction) string {
	if v, ok := in.(ssa.Value); ok {
		return fmt.Sprintf("%T:%s", in, v.Name())
	}
	return fmt.Sprintf("%T", in)
}

func (e *Engine) fileOf(pos token.Pos) *ast.File {
	tf := e.fset.File(pos)
	if tf == nil {
		return nil
	}
	for _, p := range e.all {
		for i, f := range p.CompiledGoFiles {
			if f == tf.Name() && i < len(p.Syntax) {
				return p.Syntax[i]
			}
		}
	}
	return nil
}

func (e *Engine) nodeAt(fn *ssa.Function, pos token.Pos, in ssa.Instruction) ast.Node {
	file := e.fileOf(pos)
	if file == nil {
		return nil
	}
	var best ast.Node
	ast.Inspect(file, func(n ast.Node) bool {
		if n == nil {
			return false
		}
		if pos < n.Pos() || pos >= n.End() {
			return false
		}
		switch x := n.(type) {
		case *ast.IndexExpr:
			if x.Lbrack == pos {
				best = x
			}
		case *ast.SliceExpr:
			if x.Lbrack == pos {
				best = x
			}
		case *ast.CallExpr:
			if x.Lparen == pos {
				best = x
			}
		case *ast.BinaryExpr:
			if x.OpPos == pos {
				best = x
			}
		case *ast.UnaryExpr:
			if x.OpPos == pos {
				best = x
			}
		case *ast.StarExpr:
			if x.Star == pos {
				best = x
			}
		case *ast.SelectorExpr:
			if x.Sel.Pos() == pos {
				best = x
			}
		case *ast.TypeAssertExpr:
			if x.Lparen == pos {
				best = x
			}
		case *ast.Ident:
			if x.Pos() == pos && best == nil {
				best = x
			}
		case *ast.CompositeLit:
			if x.Lbrace == pos && best == nil {
				best = x
			}
		}
		return true
	})
	return best
}

func (e *Engine) lookupQualifiedType(pkgName, name string) types.Type {
	for _, p := range e.all {
		if p.Name == pkgName && p.Types != nil {
			if obj := p.Types.Scope().Lookup(name); obj != nil {
				if _, ok := obj.(*types.TypeName); ok {
					return obj.Type()
				}
			}
		}
	}
	return nil
}

func (e *Engine) globalFor(v *types.Var) *ssa.Global {
	if v.Pkg() == nil {
		return nil
	}
	sp := e.spkgs[v.Pkg().Path()]
	if sp == nil {
		return nil
	}
	g, _ := sp.Members[v.Name()].(*ssa.Global)
	return g
}

func (e *Engine) pkgFunc(p *types.Package, name string) *ssa.Function {
	sp := e.spkgs[p.Path()]
	if sp == nil {
		return nil
	}
	return sp.Func(name)
}

// modKeyNames resolves a `modifies` item ("x.f", "x[*]", "*x", "x.f[*]") to heap key names.
func (e *Engine) modKeyNames(c *FuncCtx, con *Contract, callee *ssa.Function, item string) ([]string, error) {
	t, kind, err := e.modItemType(con, callee, item)
	if err != nil {
		return nil, err
	}
	return c.keysForMod(t, kind), nil
}

// modItemType: returns the static type info for a modifies item.
// kind: "field:<idx>" with t the struct type, "elems" with t the slice type, "obj" with t pointee type,
// "map" with t map type
func (e *Engine) modItemType(con *Contract, callee *ssa.Function, item string) (types.Type, string, error) {
	if callee == nil {
		callee = e.findFunc(con.Pkg, con.Func)
	}
	if callee == nil {
		return nil, "", fmt.Errorf("cannot resolve function for modifies %q", item)
	}
	elems := false
	if gd, _ := e.ghostOf(item); gd != nil {
		return types.Typ[types.Invalid], "ghost:" + gd.Name, nil
	}
	if base, _, _, isRange := splitModRange(item); isRange {
		item = base + "[*]" // x[lo:hi]: same memory class as x[*]; the range is honoured where the item is havocked
	}
	if strings.HasSuffix(item, "[*]") {
		elems = true
		item = strings.TrimSuffix(item, "[*]")
	}
	deref := false
	if strings.HasPrefix(item, "*") {
		deref = true
		item = item[1:]
	}
	derefRoot := false
	if strings.HasPrefix(item, "(*") && strings.HasSuffix(item, ")") && !strings.Contains(item, ".") {
		// (*p)[*]: the elements of the slice that p points to
		derefRoot = true
		item = item[2 : len(item)-1]
	}
	parts := strings.Split(item, ".")
	var cur types.Type
	defer func() { _ = derefRoot }()
	for _, p := range callee.Params {
		if p.Name() == parts[0] {
			cur = p.Type()
		}
	}
	for _, fv := range callee.FreeVars {
		if fv.Name() == parts[0] {
			cur = fv.Type().Underlying().(*types.Pointer).Elem()
		}
	}
	if cur == nil {
		// package-level variable
		if callee.Pkg != nil {
			if obj, ok := callee.Pkg.Pkg.Scope().Lookup(parts[0]).(*types.Var); ok {
				cur = types.NewPointer(obj.Type())
				if len(parts) == 1 {
					deref = true
				}
			}
		}
	}
	if cur == nil {
		return nil, "", fmt.Errorf("modifies: unknown root %q", parts[0])
	}
	if derefRoot {
		p, ok := cur.Underlying().(*types.Pointer)
		if !ok {
			return nil, "", fmt.Errorf("modifies: (*%s) is not a pointer", parts[0])
		}
		cur = p.Elem()
	}
	var lastStruct types.Type
	lastField := -1
	for _, fn := range parts[1:] {
		if p, ok := cur.Underlying().(*types.Pointer); ok {
			cur = p.Elem()
		}
		st, ok := cur.Underlying().(*types.Struct)
		if !ok {
			return nil, "", fmt.Errorf("modifies: %s is not a struct", cur)
		}
		found := false
		for i := 0; i < st.NumFields(); i++ {
			if st.Field(i).Name() == fn {
				lastStruct, lastField = cur, i
				cur = st.Field(i).Type()
				found = true
				break
			}
		}
		if !found {
			return nil, "", fmt.Errorf("modifies: no field %s", fn)
		}
	}
	switch {
	case elems:
		if _, ok := cur.Underlying().(*types.Slice); ok {
			return cur, "elems", nil
		}
		if _, ok := cur.Underlying().(*types.Map); ok {
			return cur, "map", nil
		}
		return nil, "", fmt.Errorf("modifies: %s[*] is not a slice or map", item)
	case deref:
		p, ok := cur.Underlying().(*types.Pointer)
		if !ok {
			return nil, "", fmt.Errorf("modifies: *%s is not a pointer", item)
		}
		return p.Elem(), "obj", nil
	case lastField >= 0:
		return lastStruct, fmt.Sprintf("field:%d", lastField), nil
	}
	return nil, "", fmt.Errorf("modifies: item %q designates no memory", item)
}

func (c *FuncCtx) keysForMod(t types.Type, kind string) []string {
	switch {
	case strings.HasPrefix(kind, "ghost:"):
		return []string{"G_" + strings.TrimPrefix(kind, "ghost:")}
	case kind == "elems":
		return []string{c.so.heapArr(t.Underlying().(*types.Slice).Elem()).Name}
	case kind == "map":
		mt := t.Underlying().(*types.Map)
		return []string{c.so.heapMapDom(mt.Key(), mt.Elem()).Name, c.so.heapMapVal(mt.Key(), mt.Elem()).Name, c.so.heapMapLen(mt.Key(), mt.Elem()).Name}
	case kind == "obj":
		if st, ok := t.Underlying().(*types.Struct); ok {
			var ks []string
			for i := 0; i < st.NumFields(); i++ {
				ks = append(ks, c.so.heapField(t, st, i).Name)
			}
			return ks
		}
		if at, ok := t.Underlying().(*types.Array); ok {
			return []string{c.so.heapArr(at.Elem()).Name}
		}
		return []string{c.so.heapObj(t).Name}
	case strings.HasPrefix(kind, "field:"):
		var i int
		fmt.Sscanf(kind, "field:%d", &i)
		return []string{c.so.heapField(t, t.Underlying().(*types.Struct), i).Name}
	}
	return nil
}
