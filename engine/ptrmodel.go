package main

import "fmt"

// ptrModel declares the model of pointers to slice elements used by the unsafe builtins:
//   elem_ptr(ref, off)  the address of element `off` of backing array `ref`
//   ptr_ref(p), ptr_off(p)  its components (for an opaque pointer: some array and offset, fixed per pointer)
func (c *FuncCtx) ptrModel() {
	if c.needed["elem_ptr"] {
		return
	}
	idx := c.so.idxSort()
	c.needDecl("elem_ptr", fmt.Sprintf("(declare-fun elem_ptr (Int %s) Int)", idx))
	c.needDecl("ptr_ref", "(declare-fun ptr_ref (Int) Int)")
	c.needDecl("ptr_off", fmt.Sprintf("(declare-fun ptr_off (Int) %s)", idx))
	if c.mode == ModeInt {
		// projections only for element addresses that can exist (a real array, an offset that fits in memory): the
		// unguarded form contradicts the range of ptr_off and ptr_ref(p) != 0 for p != 0
		c.axiom("(forall ((r Int) (o Int)) (! (=> (and (not (= r 0)) (<= 0 o) (< o 140737488355328)) (and (= (ptr_ref (elem_ptr r o)) r) (= (ptr_off (elem_ptr r o)) o) (not (= (elem_ptr r o) 0)))) :pattern ((elem_ptr r o))))", "elem_ptr")
	} else {
		c.axiom(fmt.Sprintf("(forall ((r Int) (o %s)) (! (=> (not (= r 0)) (and (= (ptr_ref (elem_ptr r o)) r) (= (ptr_off (elem_ptr r o)) o) (not (= (elem_ptr r o) 0)))) :pattern ((elem_ptr r o))))", idx), "elem_ptr")
	}
	c.axiom(fmt.Sprintf("(and (= (ptr_ref 0) 0) (= (ptr_off 0) %s))", c.so.idxLit(0)), "ptr_ref")
	if c.mode == ModeInt {
		c.axiom("(forall ((p Int)) (! (and (<= 0 (ptr_off p)) (< (ptr_off p) 140737488355328)) :pattern ((ptr_off p))))", "ptr_off")
		c.axiom("(forall ((p Int)) (! (=> (not (= p 0)) (not (= (ptr_ref p) 0))) :pattern ((ptr_ref p))))", "ptr_ref")
	}
}
