package main

import "strings"

func contractMentionsEffects(con *Contract) bool {
	for _, cl := range con.Ensures {
		if strings.Contains(cl.Text, "effects(") {
			return true
		}
	}
	for _, cl := range con.Requires {
		if strings.Contains(cl.Text, "effects(") {
			return true
		}
	}
	return false
}

func effectsMods(f *Frame, cc interface{}) []string { return []string{"G_effects"} }
