#!/bin/bash
# usage: tools_mut.sh <prop> <file-in-repo> <sed-expr>  — apply a mutation to /repo, run the quick check, revert.
prop=$1; file=$2; expr=$3
cd /repo && cp "$file" /tmp/mut_backup.$$ && sed -i "$expr" "$file" && git diff --stat | tail -1
if git diff --quiet; then echo "MUTATION DID NOT APPLY"; fi
cd /verif && bin/gowp check -prop $prop 2>&1 | grep -E "VIOLATION|obligation |KNOWN|ENGINE|quick:" | head -${4:-12}
cp /tmp/mut_backup.$$ /repo/"$file"; rm /tmp/mut_backup.$$
cd /repo && git status --short | head -3
