#!/bin/bash
# usage: tools/selftest_seeds.sh [<prop>...]   — must-fail corpus: applies every kept seeded change (/verif/seeded/<id>-<v>/patch.diff) to /repo,
# runs the property's quick check, undoes the change, and compares "was a VIOLATION reported" with meta.json's recorded `detected`
# (yes / partial => a violation is expected; no => none). Prints one line per seed; exit 1 if any seed's outcome changed.
# Run after every engine change: an axiom or encoding mistake that makes proofs vacuous shows up here as detected seeds going quiet.
cd /verif || exit 2
if [ -n "$(git -C /repo status --porcelain)" ]; then echo "REFUSING: /repo has uncommitted changes"; exit 4; fi
sav=$(mktemp -d /tmp/evsave.XXXXXX); cp -a evidence/. "$sav"/ 2>/dev/null
bad=0
for d in seeded/*/; do
  n=$(basename "$d"); p=${n%-*}
  if [ $# -gt 0 ]; then case " $* " in *" $p "*) ;; *) continue;; esac; fi
  want=$(python3 -c "import json;print(json.load(open('$d/meta.json'))['checked_against_verif']['detected'])")
  p=$(python3 -c "import json;print(json.load(open('$d/meta.json')).get('checked_by_property_check','$p'))")
  if ! git -C /repo apply --check "/verif/$d/patch.diff" 2>/dev/null; then echo "$n: PATCH DOES NOT APPLY"; bad=1; continue; fi
  git -C /repo apply "/verif/$d/patch.diff"
  out=$(./check $p quick 2>&1); v=$(echo "$out" | grep -c "^VIOLATION")
  git -C /repo checkout -- .
  got=no; [ "$v" -gt 0 ] && got=yes
  exp=yes; case "$want" in no*) exp=no;; esac
  first=$(echo "$out" | grep -m1 "^  obligation" | cut -c1-140)
  if [ "$got" = "$exp" ]; then echo "$n: ok (recorded=$want, violations=$v) $first"; else echo "$n: CHANGED (recorded=$want, now violations=$v) $first"; bad=1; fi
done
rm -rf evidence; mkdir -p evidence; cp -a "$sav"/. evidence/; rm -rf "$sav"
exit $bad
