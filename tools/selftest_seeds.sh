#!/bin/bash
# usage: tools/selftest_seeds.sh [-j N] [<prop>...]   — must-fail corpus: every kept seeded change (/verif/seeded/<id>-<v>/patch.diff) is applied to
# its own scratch worktree of /repo HEAD (under /tmp/selftest_wt, removed afterwards), the property's quick check is run against that
# worktree (evidence and replays go to a scratch directory, never into /verif), and "was a VIOLATION reported" is compared with
# meta.json's recorded `detected` (yes / partial => a violation is expected; no => none). One line per seed; exit 1 if any outcome changed.
# /repo itself is never touched, so it may run beside other work. Run after every engine change: an axiom or encoding mistake
# that makes proofs vacuous shows up here as detected seeds going quiet.
cd /verif || exit 2
J=4
if [ "$1" = "-j" ]; then J=$2; shift 2; fi
export GOFLAGS=-mod=mod GOPROXY=off
if [ ! -x bin/gowp ] || [ -n "$(find engine -name '*.go' -newer bin/gowp 2>/dev/null | head -1)" ]; then (cd engine && go build -o ../bin/gowp .) || exit 2; fi
if [ -n "$(git -C /repo status --porcelain)" ]; then echo "NOTE: /repo has uncommitted changes; the corpus runs against HEAD"; fi
props="$*"
one() {
  d=$1; n=$(basename "$d"); p=${n%-*}
  want=$(python3 -c "import json;print(json.load(open('$d/meta.json'))['checked_against_verif']['detected'])")
  p=$(python3 -c "import json;print(json.load(open('$d/meta.json')).get('checked_by_property_check','$p'))")
  wt=/tmp/selftest_wt/$n; out=/tmp/selftest_out/$n
  rm -rf "$wt" "$out"; mkdir -p /tmp/selftest_wt "$out"
  git -C /repo worktree add --detach "$wt" HEAD >/dev/null 2>&1 || { echo "$n: CANNOT MAKE WORKTREE"; return 1; }
  if ! git -C "$wt" apply "/verif/$d/patch.diff" 2>/dev/null; then echo "$n: PATCH DOES NOT APPLY"; git -C /repo worktree remove --force "$wt" >/dev/null 2>&1; return 1; fi
  res=$(bin/gowp check -prop "$p" -tier quick -repo "$wt" -verif /verif -out "$out" 2>&1); v=$(echo "$res" | grep -c "^VIOLATION")
  git -C /repo worktree remove --force "$wt" >/dev/null 2>&1; rm -rf "$wt" "$out"
  got=no; [ "$v" -gt 0 ] && got=yes
  exp=yes; case "$want" in no*) exp=no;; esac
  first=$(echo "$res" | grep -m1 "^  obligation" | cut -c1-140)
  if [ "$got" = "$exp" ]; then echo "$n: ok (recorded=$want, violations=$v) $first"; else echo "$n: CHANGED (recorded=$want, now violations=$v) $first"; return 1; fi
}
export -f one
list=""
for d in seeded/*/; do
  n=$(basename "$d"); p=${n%-*}
  if [ -n "$props" ]; then case " $props " in *" $p "*) ;; *) continue;; esac; fi
  list="$list ${d%/}"
done
echo $list | tr ' ' '\n' | xargs -P "$J" -I{} bash -c 'one {}' | tee /tmp/selftest_last.log
git -C /repo worktree prune
if grep -q "CHANGED\|DOES NOT APPLY\|CANNOT" /tmp/selftest_last.log; then exit 1; fi
exit 0
