#!/bin/bash
# usage: tools/run_seed.sh <patch.diff> <prop> [<prop>...]  — apply a seeded change to /repo, run quick checks, undo.
# Evidence files are saved before and restored after: committed evidence must always come from the unchanged tree.
patch=$1; shift
cd /repo || exit 2
if [ -n "$(git status --porcelain)" ]; then echo "REFUSING: /repo has uncommitted changes (commit them first: git checkout would destroy them)"; exit 4; fi
if ! git apply --check "$patch" 2>/dev/null; then echo "PATCH DOES NOT APPLY to current /repo: $patch"; git apply --check "$patch" 2>&1 | head -3; exit 3; fi
sav=$(mktemp -d /tmp/evsave.XXXXXX); cp -a /verif/evidence/. "$sav"/ 2>/dev/null
git apply "$patch"
for p in "$@"; do (cd /verif && ./check $p quick 2>&1 | grep -E "^VIOLATION|obligation |KNOWN|ENGINE|quick:" | cut -c1-260 | head -8); done
git checkout -- . ; git status --short | head -3
rm -rf /verif/evidence; mkdir -p /verif/evidence; cp -a "$sav"/. /verif/evidence/; rm -rf "$sav"
