#!/usr/bin/env python3
"""usage: go test -json ... | suite_ok.py   — exit 0 iff every test of /root/.vp/BASELINE.json's stable_pass list that belongs to a
package seen in the stream passed (tests outside the list — integration tests that need a server — are ignored)."""
import sys, json
stable = set(json.load(open('/root/.vp/BASELINE.json'))['stable_pass'])
res = {}; pkgs = set(); buildfail = False
for line in sys.stdin:
    try: ev = json.loads(line)
    except Exception: continue
    p = ev.get('Package'); t = ev.get('Test'); a = ev.get('Action')
    if p: pkgs.add(p)
    if a == 'build-fail' or (a == 'fail' and not t and ev.get('Elapsed', 1) == 0): buildfail = True
    if p and t and a in ('pass', 'fail', 'skip'): res[p + '::' + t] = a
bad = [k for k in stable if k.split('::')[0] in pkgs and res.get(k) != 'pass']
if buildfail and not res: print('BUILD FAILED'); sys.exit(1)
for k in sorted(bad)[:20]: print('NOT PASSING:', k, res.get(k))
print(f'{len([k for k in stable if k.split("::")[0] in pkgs])} stable tests in {len(pkgs)} packages, {len(bad)} not passing')
sys.exit(1 if bad else 0)
