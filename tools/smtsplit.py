#!/usr/bin/env python3
"""usage: smtsplit.py query.smt2 [timeout_s]  — debugging aid: splits the final (assert (not (and c1 c2 ...))) goal of a dumped query into
its conjuncts (recursively flattening nested `and`) and runs z3-new on each, to find which conjunct does not discharge."""
import sys, subprocess, re, os, tempfile
src = open(sys.argv[1]).read(); to = sys.argv[2] if len(sys.argv) > 2 else '10'
lines = src.split('\n')
gi = max(i for i, l in enumerate(lines) if l.startswith('(assert (not '))
goal = lines[gi][len('(assert (not '):-2]
def sexp(s, i):
    # returns end index of the s-expression starting at i
    if s[i] != '(':
        j = i
        while j < len(s) and s[j] not in ' ()': j += 1
        return j
    d = 0; j = i
    while True:
        if s[j] == '(': d += 1
        elif s[j] == ')':
            d -= 1
            if d == 0: return j + 1
        elif s[j] == '|':
            j = s.index('|', j + 1)
        j += 1
def conj(s):
    s = s.strip()
    if s.startswith('(and '):
        out = []; i = 5
        while i < len(s) - 1:
            while s[i] == ' ': i += 1
            if s[i] == ')': break
            j = sexp(s, i); out += conj(s[i:j]); i = j
        return out
    return [s]
cs = conj(goal)
pre = '\n'.join(l for l in lines[:gi] )
post = '(check-sat)\n'
for k, c in enumerate(cs):
    f = tempfile.NamedTemporaryFile('w', suffix='.smt2', delete=False)
    f.write(pre + '\n(assert (not ' + c + '))\n' + post); f.close()
    try:
        r = subprocess.run(['z3-new', '-T:' + to, f.name], capture_output=True, text=True).stdout.strip().split('\n')[0]
    except Exception as e: r = str(e)
    os.unlink(f.name)
    print(r.ljust(8), c[:200])
