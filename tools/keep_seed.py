#!/usr/bin/env python3
"""usage: keep_seed.py <prop> <variant> <detected: yes|no|partial> <detected_by (obligation names / note)>
Copies a confirmed seeded change from /tmp/seed_out into /verif/seeded/<prop>-<variant>/ with meta.json."""
import sys, os, json, shutil, re, glob
prop, var, det, by = sys.argv[1], sys.argv[2], sys.argv[3], sys.argv[4]
src = f'/tmp/seed_out/{prop}/{var}'
dst = f'/verif/seeded/{prop}-{var}'
os.makedirs(dst, exist_ok=True)
shutil.copy(f'{src}/patch.diff', f'{dst}/patch.diff')
demos = glob.glob(f'{src}/*_test.go') + glob.glob(f'{src}/*.go')
demo = demos[0]
shutil.copy(demo, f'{dst}/' + os.path.basename(demo) + '.txt')  # .txt so that it is never compiled by accident
readme = open(f'{src}/README.md').read()
shutil.copy(f'{src}/README.md', f'{dst}/README.md')
res = ''
for f in glob.glob('/tmp/seedverify/results.log'):
    for l in open(f):
        if f'id={prop} variant={var} ' in l: res = l.strip()
dest = re.search(r'dest=(\S+)', res).group(1) if res else '.'
meta = {
 "breaks_property": prop,
 "site": re.findall(r'^\+\+\+ b/(\S+)', open(f'{src}/patch.diff').read(), re.M),
 "needs_to_manifest": (re.search(r'(?is)(trigger|manifest)[^\n]*\n(.{0,600})', readme).group(0)[:700] if re.search(r'(?i)trigger|manifest', readme) else readme[:500]),
 "demonstration": os.path.basename(demo) + '.txt' + f' (in-package test; copy to {dest}/{os.path.basename(demo)} in the repository)',
 "confirmed_by_me": {"what_i_ran": "tools/verify_seed.sh in a scratch worktree of /repo HEAD: (1) the demonstration on the unchanged code, (2) the demonstration with patch.diff applied, (3) the existing suite of every touched module with the patch applied (every stable_pass test of /root/.vp/BASELINE.json must still pass; tools/suite_ok.py)", "result": res},
 "checked_against_verif": {"command": f"tools/run_seed.sh seeded/{prop}-{var}/patch.diff {prop}", "detected": det, "detected_by": by},
 "origin": "independent sub-agent given only the property text and a scratch worktree"
}
json.dump(meta, open(f'{dst}/meta.json', 'w'), indent=1)
print('kept', dst)
