#!/bin/bash
# usage: tools/mk_seed_wt.sh <name>   — scratch worktree of /repo HEAD for an independent seeding sub-agent, under /tmp/seedwt/<name>,
# with every zz_verif_* contract file removed (committed locally on a detached HEAD) so the agent sees nothing of /verif's contracts.
set -e
name=$1; d=/tmp/seedwt/$name
mkdir -p /tmp/seedwt
git -C /repo worktree add --detach "$d" HEAD >/dev/null 2>&1
cd "$d"
find . -name 'zz_verif_*' -not -path './.git/*' -print0 | xargs -0 git rm -q --
git -c user.name=seed -c user.email=seed@example.invalid commit -q -m "seed base: contract files removed"
echo "$d"
