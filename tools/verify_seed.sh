#!/bin/bash
# usage: tools/verify_seed.sh <prop> <variant> <dir-with patch.diff + demo *_test.go> [<module dir relative to repo, default .>] [<test name regex>]
# Confirms a seeded change in a fresh scratch worktree of /repo HEAD: (1) the demonstration passes on the unchanged code,
# (2) fails with the patch, (3) the existing suite of the affected module(s) still passes with the patch (demo removed).
prop=$1; var=$2; src=$3; dest=${4:-.}; run=${5:-.}
export GOFLAGS=-mod=mod GOPROXY=off
wt=/tmp/seedverify/$prop-$var; rm -rf "$wt"; mkdir -p /tmp/seedverify
git -C /repo worktree add --detach "$wt" HEAD >/dev/null 2>&1 || { echo "cannot make worktree"; exit 2; }
cleanup() { git -C /repo worktree remove --force "$wt" >/dev/null 2>&1; rm -rf "$wt"; }
trap cleanup EXIT
demo=$(ls "$src"/*_test.go 2>/dev/null | head -1)
[ -z "$demo" ] && { echo "RESULT id=$prop variant=$var no demo test"; exit 2; }
cp "$demo" "$wt/$dest/"
(cd "$wt/$dest" && go test -vet=off -count=1 -timeout 300s -run "$run" . >/tmp/seedverify/$prop-$var.base.log 2>&1); r1=$?
if ! git -C "$wt" apply "$src/patch.diff" 2>/tmp/seedverify/$prop-$var.apply.log; then echo "RESULT id=$prop variant=$var PATCH DOES NOT APPLY"; exit 2; fi
(cd "$wt/$dest" && go test -vet=off -count=1 -timeout 300s -run "$run" . >/tmp/seedverify/$prop-$var.patched.log 2>&1); r2=$?
rm -f "$wt/$dest/$(basename "$demo")"
mods=$(git -C "$wt" diff --name-only | while read f; do d=$(dirname "$f"); while [ "$d" != "." ] && [ ! -f "$wt/$d/go.mod" ]; do d=$(dirname "$d"); done; echo "$d"; done | sort -u)
# a change in the root module can affect every add-on module that replaces it: run the root module plus the directly touched ones
r3=0
for m in $mods; do
  (cd "$wt/$m" && go test -json -vet=off -count=1 -timeout 25m ./... 2>&1 | /verif/tools/suite_ok.py >/tmp/seedverify/$prop-$var.suite.$(echo $m | tr / _).log 2>&1) || r3=1
done
echo "RESULT id=$prop variant=$var demo_on_unchanged=$r1(want 0) demo_with_patch=$r2(want !=0) suite_with_patch=$r3(want 0) modules=$(echo $mods | tr ' ' ,) dest=$dest" | tee -a /tmp/seedverify/results.log
