#!/usr/bin/env python3
"""usage: feas.py query.smt2  — debugging aid: for every block-predicate definition (define-fun b<k>... () Bool ...) of a dumped query, asks z3
(incremental front end, 5 s) whether the predicate is satisfiable together with the global axioms; prints the first ones that are UNSAT
(an unsat predicate that is not simply dead code means the assumptions collected up to that point contradict each other)."""
import sys,subprocess,re
src=open(sys.argv[1]).read(); lines=src.split('\n')
gi=max(i for i,l in enumerate(lines) if l.startswith('(assert '))
# drop trailing goal asserts (guard + negated goal)
k=len(lines)
while k>0 and not lines[k-1].startswith('(define-fun') and not lines[k-1].startswith('(declare'): k-=1
prefix='\n'.join(l for l in lines[:k])
preds=[re.match(r'\(define-fun (\S+) \(\) Bool',l).group(1) for l in lines[:k] if re.match(r'\(define-fun (\S*b\d+(_[ar]\d+|_h)?) \(\) Bool',l)]
txt=prefix+'\n'+''.join('(push 1)\n(assert %s)\n(check-sat)\n(pop 1)\n'%p for p in preds)
open('/tmp/feas.smt2','w').write('(set-option :timeout 5000)\n'+txt)
out=[x for x in subprocess.run(['z3-new','/tmp/feas.smt2'],capture_output=True,text=True).stdout.split('\n') if x in('sat','unsat','unknown','timeout')]
n=0
for p,a in zip(preds,out):
    if a=='unsat':
        n+=1
        if n<=12:
            d=[l for l in lines if l.startswith('(define-fun %s () Bool'%p)][0]
            print('UNSAT',p,d[:400])
print(len(preds),'predicates,',n,'unsat')
