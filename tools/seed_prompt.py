#!/usr/bin/env python3
"""usage: seed_prompt.py <prop-id> [variants, default A,B]  — prints the prompt handed to an independent seeding sub-agent (property text only)."""
import sys, json
pid = sys.argv[1]; variants = (sys.argv[2] if len(sys.argv) > 2 else 'A,B').split(',')
p = [json.loads(l) for l in open('/verif/properties.jsonl') if json.loads(l)['id'] == pid][0]
print(f"""You are helping test a verification effort for the Go Redis client library redis/rueidis. Your job: produce {len(variants)} DIFFERENT, realistic, subtle code changes ("seeded bugs") to the library, each of which BREAKS the property below while the library still compiles and its existing test suite still passes.

PROPERTY {pid} — {p['title']}
Statement: {p['statement']}
Quantified over: {p['quantifier']['text']}
Files where the mechanism lives: {', '.join(p['anchors'].get('files', []))}

YOUR WORKSPACE: a scratch git worktree of the library at /tmp/seedwt/{pid} (work ONLY there; never touch /repo or /verif; do not read anything under /verif). Environment for every go command: `export GOFLAGS=-mod=mod GOPROXY=off` (no network; do NOT set GOTOOLCHAIN or GOSUMDB). The add-on packages (rueidisprob, rueidiscompat, rueidishook, rueidislimiter, rueidisaside, om, mock, ...) are separate Go modules in sub-directories: run go inside the module directory.

REQUIREMENTS for each change (variants {', '.join(variants)}):
1. It is a small edit to NON-test library source (not *_test.go, not generated-code regeneration) of the kind a developer could plausibly make by mistake or in a well-meant refactor/optimisation. It must compile.
2. It breaks the property above (really breaks it — observable through the public or package-level API).
3. It needs something SPECIFIC to manifest: an unusual input, a particular multi-step sequence, a particular interleaving / fault point, or two cooperating sites that each look fine alone — NOT something that ordinary use or the existing tests would expose at once. Variants must touch different mechanisms/functions of the property where possible.
4. The existing test suite of every module you touched still passes with the change. Integration tests that need a live Redis server fail in this sandbox with or without your change; ignore those. Use this to check (it only counts the tests known to pass offline):  `cd <module dir> && go test -json -vet=off -count=1 -timeout 25m ./... 2>&1 | python3 /tmp/seedtools/suite_ok.py`  (root module takes ~3 minutes; must print "0 not passing").
5. A demonstration: ONE Go test file named zz_seed_demo_test.go (in-package test, `package <same package as the changed code>`, placed in the changed package's directory; one test function named TestSeed{pid}<variant>_<something>; no network, no live server — use the package's existing mocks/fakes or net.Pipe if needed; deterministic; finishes in < 30 s) that PASSES on the unchanged code and FAILS with your change. If the package's TestMain checks for goroutine leaks, make sure your test releases everything it starts.

DELIVERABLES, for each variant V in {variants}: directory /tmp/seed_out/{pid}/V/ containing
  - patch.diff   : output of `git -C /tmp/seedwt/{pid} diff HEAD -- . ':!*zz_seed_demo_test.go'` with ONLY that variant's change (it must apply with `git apply` to a clean checkout; do not include the demo test in the patch)
  - zz_seed_demo_test.go : the demonstration
  - README.md    : (a) what the change is and why it looks innocent, (b) exactly how it breaks the property, (c) "Needs to manifest:" what specific input/sequence/interleaving is needed, (d) the package directory (relative to the repository root) the demo test goes into and the command you ran, with the observed pass-without / fail-with results, and the suite_ok.py result with the change.
Work on one variant at a time: make the change, write and run the demo (fails), run the suite check, save the deliverables, then `git -C /tmp/seedwt/{pid} checkout -- . && git -C /tmp/seedwt/{pid} clean -fdq` and confirm the demo passes on the clean tree before starting the next variant. Leave the worktree clean at the end. Your final message: for each variant one line `VARIANT V: <file(s) changed> — <one-sentence description> — demo dir: <package dir>`.""")
