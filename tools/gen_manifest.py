#!/usr/bin/env python3
"""Generates /verif/MANIFEST.json from tools/claims.json (claimed properties) and tools/not_applicable.json."""
import json, os, subprocess
root = os.path.dirname(os.path.dirname(os.path.abspath(__file__)))
claims = json.load(open(os.path.join(root, 'tools', 'claims.json')))
na = json.load(open(os.path.join(root, 'tools', 'not_applicable.json')))
ids = ['C%02d' % i for i in range(1, 48)]
commits = subprocess.run(['git', '-C', '/repo', 'log', '--format=%h %s', 'fc26ed5..HEAD'], capture_output=True, text=True).stdout.strip().splitlines()
hook_commits = [c.split()[0] for c in commits if c.split(' ', 1)[1].startswith('verif:')]
m = {
 "version": 1,
 "setup_cmd": "cd /verif/engine && GOFLAGS=-mod=mod GOPROXY=off go build -o ../bin/gowp .",
 "hooks": {"guard": "verif", "enable": "contract files zz_verif_contracts.go are comment-only and carry //go:build verif; the checker loads packages with -tags=verif",
           "baseline_off_cmd": "for m in $(cat /w/out/gomods.txt); do MF=$(cd /repo/$m && . /w/out/goenv.sh && gomodflag); (cd /repo/$m && go test $MF -json -vet=off -count=1 -timeout 25m ./...); done",
           "source_commits": hook_commits, "add_only": True},
 "engines": [{"name": "gowp", "path": "/verif/engine", "serves_properties": sorted(claims), "kind_free_text": "weakest-precondition style VC generator over go/ssa of the real code, contracts in //@ comments, obligations discharged by z3 5.1 / z3 4.8.12 / cvc5 1.0"}],
 "checks": [], "not_applicable": [],
 "notes": "All checks: ./check <id> quick|thorough. Exit 0 = every claimed obligation discharged (known findings printed as KNOWN-FINDING lines), 1 = VIOLATION line(s): an obligation generated from the current tree failed (solver answer in the replay file), 2 = no verdict: engine fault, or UNDECIDED lines — the contract of a function no longer matches the code (renamed local, vanished call site or loop), which decides nothing and is never reported as a violation. See DESIGN.md A.4."
}
for i in ids:
    if i in claims:
        c = claims[i]
        m["checks"].append({"property_id": i, "quick_cmd": "./check %s quick" % i, "thorough_cmd": "./check %s thorough" % i, "evidence_file": "/verif/evidence/%s.json" % i,
            "replay_cmd_template": "./check --replay {path}", "engine": "gowp",
            "level_claimed": {"category": "proof", "text": c["text"], "design_ref": c.get("design_ref", "DESIGN.md §4 " + i)},
            "level_note": c["note"], "technique": c.get("technique", "contract-based deductive verification: contracts on the real functions, VCs generated from go/ssa, discharged by SMT (z3/cvc5)")})
    else:
        m["not_applicable"].append({"property_id": i, "reason": na.get(i, "not built: no contract for this property discharges yet (see DESIGN.md)")})
json.dump(m, open(os.path.join(root, 'MANIFEST.json'), 'w'), indent=1)
print(len(m["checks"]), "claimed;", len(m["not_applicable"]), "not applicable")
