#!/bin/bash
# usage: tools/regress.sh [quick|thorough] [ids...] — runs ./check for every claimed property (or the given ids), prints one line each.
cd "$(dirname "$0")/.."
tier=${1:-quick}; shift
ids="$@"
[ -z "$ids" ] && ids=$(python3 -c "import json;print(' '.join(sorted(json.load(open('tools/claims.json')))))")
bad=0
for id in $ids; do
  out=$(./check $id $tier 2>&1); rc=$?
  echo "$id rc=$rc $(echo "$out" | tail -1)"
  if [ $rc -ne 0 ]; then bad=1; echo "$out" | grep -E "VIOLATION|ENGINE-FAULT|obligation " | head -8; fi
done
exit $bad
